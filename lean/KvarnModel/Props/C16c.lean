import KvarnModel.Props.C16b
/-! C16, the `!> ` line parser against its grammar: tokens separated by a space (next argument), by ` &> ` (next
extension) or ended by LF / CRLF are read back exactly — every token at its position, attached to the right
extension — whatever the document contains after the line. -/
namespace PresentExt
open Rust

inductive Sep | space | and | lf | crlf deriving DecidableEq, Repr
def Sep.bytes : Sep → Bytes
  | .space => [SP] | .and => AND | .lf => [LF] | .crlf => [CR, LF]
def Sep.isEol : Sep → Bool | .lf => true | .crlf => true | _ => false

structure TokOk (t : Bytes) : Prop where
  ne : t ≠ []
  utf8 : utf8Valid t = true
  bytes : ∀ b ∈ t, b ≠ SP ∧ b ≠ CR ∧ b ≠ LF
  notAnd : t ≠ AND_TRIMMED

def renderItems : List (Bytes × Sep) → Bytes
  | [] => []
  | (t, s) :: rest => t ++ s.bytes ++ renderItems rest

def entryOf (last : Option (Nat × Nat)) (p len : Nat) : PEntry :=
  match last with
  | some n => ⟨n.1, n.2, p, len⟩
  | none => ⟨p, len, p, len⟩
def lastOf (last : Option (Nat × Nat)) (p len : Nat) : Option (Nat × Nat) :=
  match last with
  | some n => some n
  | none => some (p, len)

/-- the loop at token granularity: what `PresentExtensions::new` is meant to compute -/
def tokensSpec : List (Bytes × Sep) → Nat → Option (Nat × Nat) → List PEntry → Option (List PEntry × Nat)
  | [], _, _, _ => none
  | (t, s) :: rest, p, last, es =>
    match s with
    | .space => tokensSpec rest (p + t.length + 1) (lastOf last p t.length) (es ++ [entryOf last p t.length])
    | .and => tokensSpec rest (p + t.length + 4) none (es ++ [entryOf last p t.length])
    | .lf => some (es ++ [entryOf last p t.length], p + t.length + 1)
    | .crlf => some (es ++ [entryOf last p t.length], p + t.length + 2)

/-- items are well-formed: tokens are tokens, only the last separator ends the line -/
def ItemsOk : List (Bytes × Sep) → Prop
  | [] => False
  | [(t, s)] => TokOk t ∧ s.isEol = true
  | (t, s) :: r :: rest => TokOk t ∧ s.isEol = false ∧ ItemsOk (r :: rest)

/-! ### runs of bytes -/

theorem pgo_token (orig : Bytes) : ∀ (tok rest : Bytes) (pos : Nat) (st : PState), st.start ≤ pos →
    (∀ b ∈ tok, b ≠ SP ∧ b ≠ CR ∧ b ≠ LF) → pgo orig (tok ++ rest) pos st = pgo orig rest (pos + tok.length) st := by
  intro tok
  induction tok with
  | nil => intro rest pos st _ _; simp
  | cons a tok ih =>
    intro rest pos st hs hb
    have ha := hb a (by simp)
    rw [List.cons_append, pgo, if_neg (by omega), if_neg (by simp [ha.1, ha.2.1, ha.2.2])]
    rw [ih rest (pos + 1) st (by omega) (fun b hb' => hb b (by simp [hb']))]
    simp only [List.length_cons]; congr 1; omega

theorem pgo_skip (orig : Bytes) : ∀ (seg rest : Bytes) (pos : Nat) (st : PState), pos + seg.length ≤ st.start →
    pgo orig (seg ++ rest) pos st = pgo orig rest (pos + seg.length) st := by
  intro seg
  induction seg with
  | nil => intro rest pos st _; simp
  | cons a seg ih =>
    intro rest pos st hs
    simp only [List.length_cons] at hs
    rw [List.cons_append, pgo, if_pos (by omega), ih rest (pos + 1) st (by omega)]
    simp only [List.length_cons]; congr 1; omega

/-! ### a token and its separator -/


theorem extract_at (pre t post : Bytes) : extract (pre ++ t ++ post) pre.length (pre.length + t.length) = t := by
  simp [extract, List.append_assoc]

/-- the separator byte after a token: the token is recorded, then the loop goes on according to the separator -/
theorem pgo_sepbyte (orig : Bytes) (b : UInt8) (rest : Bytes) (pos : Nat) (st : PState) (t : Bytes)
    (hstart : st.start ≤ pos) (hb : b = SP ∨ b = CR ∨ b = LF) (hx : extract orig st.start pos = t) (hok : TokOk t)
    (hlen : pos - st.start = t.length) :
    pgo orig (b :: rest) pos st =
      (if b = LF then some (st.entries ++ [entryOf st.lastName st.start t.length], pos + 1)
       else if startsWith (b :: rest) AND then
         pgo orig rest (pos + 1) { start := pos + 4, lastName := none, entries := st.entries ++ [entryOf st.lastName st.start t.length] }
       else pgo orig rest (pos + 1)
         { start := pos + 1, lastName := lastOf st.lastName st.start t.length, entries := st.entries ++ [entryOf st.lastName st.start t.length] }) := by
  have hpos : t.length > 0 := by
    cases ht : t with
    | nil => exact absurd ht hok.ne
    | cons _ _ => simp
  rw [pgo, if_neg (by omega), if_pos hb]
  have hc : t.length > 0 ∧ t ≠ AND_TRIMMED := ⟨hpos, hok.notAnd⟩
  simp only [hx, hok.utf8, Bool.not_true, Bool.false_eq_true, ↓reduceIte, hlen, hc, and_self]
  have hna : ¬ (t = AND_TRIMMED) := hok.notAnd
  cases hl : st.lastName <;> simp [entryOf, lastOf, hna]

theorem pgo_item_space (pre t post : Bytes) (hok : TokOk t) (last : Option (Nat × Nat)) (es : List PEntry)
    (hna : startsWith post [38, 62, 32] = false) :
    pgo (pre ++ t ++ ([SP] ++ post)) (t ++ ([SP] ++ post)) pre.length { start := pre.length, lastName := last, entries := es } =
      pgo (pre ++ t ++ ([SP] ++ post)) post (pre.length + t.length + 1)
        { start := pre.length + t.length + 1, lastName := lastOf last pre.length t.length, entries := es ++ [entryOf last pre.length t.length] } := by
  generalize horig : pre ++ t ++ ([SP] ++ post) = orig
  have hx : extract orig pre.length (pre.length + t.length) = t := by rw [← horig]; exact extract_at pre t _
  rw [pgo_token orig t ([SP] ++ post) pre.length { start := pre.length, lastName := last, entries := es } (Nat.le_refl _) hok.bytes]
  show pgo orig (SP :: post) _ _ = _
  rw [pgo_sepbyte orig SP post _ _ t (by simp) (.inl rfl) hx hok (by simp)]
  have hsp : ¬ (SP = LF) := by decide
  have hand : startsWith (SP :: post) AND = false := by
    simp only [AND, startsWith, Bool.and_eq_false_iff]; right; exact hna
  rw [if_neg hsp, hand]
  simp

theorem pgo_item_and (pre t post : Bytes) (hok : TokOk t) (last : Option (Nat × Nat)) (es : List PEntry) :
    pgo (pre ++ t ++ (AND ++ post)) (t ++ (AND ++ post)) pre.length { start := pre.length, lastName := last, entries := es } =
      pgo (pre ++ t ++ (AND ++ post)) post (pre.length + t.length + 4)
        { start := pre.length + t.length + 4, lastName := none, entries := es ++ [entryOf last pre.length t.length] } := by
  generalize horig : pre ++ t ++ (AND ++ post) = orig
  have hx : extract orig pre.length (pre.length + t.length) = t := by rw [← horig]; exact extract_at pre t _
  rw [pgo_token orig t (AND ++ post) pre.length { start := pre.length, lastName := last, entries := es } (Nat.le_refl _) hok.bytes]
  show pgo orig (SP :: ([38, 62, 32] ++ post)) _ _ = _
  rw [pgo_sepbyte orig SP _ _ _ t (by simp) (.inl rfl) hx hok (by simp)]
  have hsp : ¬ (SP = LF) := by decide
  have hand : startsWith (SP :: ([38, 62, 32] ++ post)) AND = true := by
    simp [AND, startsWith, SP]
  rw [if_neg hsp, hand]
  simp only [↓reduceIte]
  rw [pgo_skip orig [38, 62, 32] post _ _ (by simp)]
  simp only [List.length_cons, List.length_nil]

theorem pgo_item_lf (pre t post : Bytes) (hok : TokOk t) (last : Option (Nat × Nat)) (es : List PEntry) :
    pgo (pre ++ t ++ ([LF] ++ post)) (t ++ ([LF] ++ post)) pre.length { start := pre.length, lastName := last, entries := es } =
      some (es ++ [entryOf last pre.length t.length], pre.length + t.length + 1) := by
  generalize horig : pre ++ t ++ ([LF] ++ post) = orig
  have hx : extract orig pre.length (pre.length + t.length) = t := by rw [← horig]; exact extract_at pre t _
  rw [pgo_token orig t ([LF] ++ post) pre.length { start := pre.length, lastName := last, entries := es } (Nat.le_refl _) hok.bytes]
  show pgo orig (LF :: post) _ _ = _
  rw [pgo_sepbyte orig LF post _ _ t (by simp) (.inr (.inr rfl)) hx hok (by simp)]
  simp

theorem pgo_item_crlf (pre t post : Bytes) (hok : TokOk t) (last : Option (Nat × Nat)) (es : List PEntry) :
    pgo (pre ++ t ++ ([CR, LF] ++ post)) (t ++ ([CR, LF] ++ post)) pre.length { start := pre.length, lastName := last, entries := es } =
      some (es ++ [entryOf last pre.length t.length], pre.length + t.length + 2) := by
  generalize horig : pre ++ t ++ ([CR, LF] ++ post) = orig
  have hx : extract orig pre.length (pre.length + t.length) = t := by rw [← horig]; exact extract_at pre t _
  rw [pgo_token orig t ([CR, LF] ++ post) pre.length { start := pre.length, lastName := last, entries := es } (Nat.le_refl _) hok.bytes]
  show pgo orig (CR :: LF :: post) _ _ = _
  rw [pgo_sepbyte orig CR _ _ _ t (by simp) (.inr (.inl rfl)) hx hok (by simp)]
  have h1 : ¬ (CR = LF) := by decide
  have hand : startsWith (CR :: LF :: post) AND = false := by simp [AND, startsWith, CR]
  rw [if_neg h1, hand]
  simp only [Bool.false_eq_true, ↓reduceIte]
  -- the LF: an empty token, nothing recorded
  rw [pgo, if_neg (by simp), if_pos (.inr (.inr rfl))]
  have hempty : extract orig (pre.length + t.length + 1) (pre.length + t.length + 1) = [] := by simp [extract]
  simp only [hempty]
  simp [utf8Valid]

/-! ### the whole line -/

theorem tok_not_and_prefix (t more : Bytes) (hok : TokOk t) (c : UInt8) (m' : Bytes) (hm : more = c :: m')
    (hc : c = SP ∨ c = CR ∨ c = LF) : startsWith (t ++ more) [38, 62, 32] = false := by
  subst hm
  cases t with
  | nil => exact absurd rfl hok.ne
  | cons a t1 =>
    by_cases ha : a = 38
    · subst ha
      cases t1 with
      | nil =>
        -- "&" then the separator
        simp only [List.cons_append, List.nil_append, startsWith, Bool.and_eq_false_iff]
        right; left
        rcases hc with rfl | rfl | rfl <;> decide
      | cons b t2 =>
        by_cases hb : b = 62
        · subst hb
          cases t2 with
          | nil => exact absurd rfl hok.notAnd
          | cons d t3 =>
            have hd := (hok.bytes d (by simp)).1
            simp only [List.cons_append, startsWith, Bool.and_eq_false_iff]
            right; right; left
            simpa [SP] using hd
        · simp only [List.cons_append, startsWith, Bool.and_eq_false_iff]
          right; left; simpa using hb
    · simp only [List.cons_append, startsWith, Bool.and_eq_false_iff]
      left; simpa using ha

theorem sep_head (s : Sep) : ∃ c m', s.bytes = c :: m' ∧ (c = SP ∨ c = CR ∨ c = LF) := by
  cases s
  · exact ⟨SP, [], rfl, .inl rfl⟩
  · exact ⟨SP, [38, 62, 32], rfl, .inl rfl⟩
  · exact ⟨LF, [], rfl, .inr (.inr rfl)⟩
  · exact ⟨CR, [LF], rfl, .inr (.inl rfl)⟩

/-- **the loop computes the token-level specification** on every well-formed line, whatever follows it -/
theorem pgo_items : ∀ (items : List (Bytes × Sep)), ItemsOk items → ∀ (pre content : Bytes) (last : Option (Nat × Nat))
    (es : List PEntry),
    pgo (pre ++ renderItems items ++ content) (renderItems items ++ content) pre.length
      { start := pre.length, lastName := last, entries := es } = tokensSpec items pre.length last es := by
  intro items
  induction items with
  | nil => intro h; exact absurd h (by simp [ItemsOk])
  | cons it rest ih =>
    obtain ⟨t, s⟩ := it
    intro hok pre content last es
    cases rest with
    | nil =>
      obtain ⟨htok, heol⟩ := hok
      cases s with
      | space => simp [Sep.isEol] at heol
      | and => simp [Sep.isEol] at heol
      | lf =>
        have := pgo_item_lf pre t content htok last es
        simpa [renderItems, Sep.bytes, tokensSpec, List.append_assoc] using this
      | crlf =>
        have := pgo_item_crlf pre t content htok last es
        simpa [renderItems, Sep.bytes, tokensSpec, List.append_assoc] using this
    | cons r rest2 =>
      obtain ⟨htok, hne, hrest⟩ := hok
      obtain ⟨t2, s2⟩ := r
      have htok2 : TokOk t2 := by
        cases rest2 with
        | nil => exact hrest.1
        | cons _ _ => exact hrest.1
      cases s with
      | lf => simp [Sep.isEol] at hne
      | crlf => simp [Sep.isEol] at hne
      | space =>
        obtain ⟨c, m', hm, hc⟩ := sep_head s2
        have hna : startsWith (renderItems ((t2, s2) :: rest2) ++ content) [38, 62, 32] = false := by
          have : renderItems ((t2, s2) :: rest2) ++ content = t2 ++ (c :: (m' ++ renderItems rest2 ++ content)) := by
            simp [renderItems, hm, List.append_assoc]
          rw [this]
          exact tok_not_and_prefix t2 _ htok2 c _ rfl hc
        have h1 := pgo_item_space pre t (renderItems ((t2, s2) :: rest2) ++ content) htok last es hna
        have h2 := ih hrest (pre ++ t ++ [SP]) content (lastOf last pre.length t.length) (es ++ [entryOf last pre.length t.length])
        have e1 : pre ++ renderItems ((t, Sep.space) :: (t2, s2) :: rest2) ++ content =
            pre ++ t ++ ([SP] ++ (renderItems ((t2, s2) :: rest2) ++ content)) := by
          simp [renderItems, Sep.bytes, List.append_assoc]
        have e2 : renderItems ((t, Sep.space) :: (t2, s2) :: rest2) ++ content =
            t ++ ([SP] ++ (renderItems ((t2, s2) :: rest2) ++ content)) := by
          simp [renderItems, Sep.bytes, List.append_assoc]
        have e3 : pre ++ t ++ [SP] ++ renderItems ((t2, s2) :: rest2) ++ content =
            pre ++ t ++ ([SP] ++ (renderItems ((t2, s2) :: rest2) ++ content)) := by simp [List.append_assoc]
        have e4 : (pre ++ t ++ [SP]).length = pre.length + t.length + 1 := by
          simp only [List.length_append, List.length_cons, List.length_nil]
        rw [e1, e2, h1]
        rw [e3, e4] at h2
        rw [h2]
        simp [tokensSpec]
      | and =>
        have h1 := pgo_item_and pre t (renderItems ((t2, s2) :: rest2) ++ content) htok last es
        have h2 := ih hrest (pre ++ t ++ AND) content none (es ++ [entryOf last pre.length t.length])
        have e1 : pre ++ renderItems ((t, Sep.and) :: (t2, s2) :: rest2) ++ content =
            pre ++ t ++ (AND ++ (renderItems ((t2, s2) :: rest2) ++ content)) := by
          simp [renderItems, Sep.bytes, List.append_assoc]
        have e2 : renderItems ((t, Sep.and) :: (t2, s2) :: rest2) ++ content =
            t ++ (AND ++ (renderItems ((t2, s2) :: rest2) ++ content)) := by
          simp [renderItems, Sep.bytes, List.append_assoc]
        have e3 : pre ++ t ++ AND ++ renderItems ((t2, s2) :: rest2) ++ content =
            pre ++ t ++ (AND ++ (renderItems ((t2, s2) :: rest2) ++ content)) := by simp [List.append_assoc]
        have e4 : (pre ++ t ++ AND).length = pre.length + t.length + 4 := by
          simp only [AND, List.length_append, List.length_cons, List.length_nil]
        rw [e1, e2, h1]
        rw [e3, e4] at h2
        rw [h2]
        simp [tokensSpec]

/-! ### what the entries say, read back from the data -/

/-- the extension name and the token an entry points at -/
def readEntry (data : Bytes) (e : PEntry) : Bytes × Bytes :=
  (extract data e.nameStart (e.nameStart + e.nameLen), extract data e.argStart (e.argStart + e.argLen))

/-- what the line says: every token with the name of the extension it belongs to (the first token of an extension is
its name and is listed with itself) -/
def tokenReads : List (Bytes × Sep) → Option Bytes → List (Bytes × Bytes)
  | [], _ => []
  | (t, s) :: rest, cur =>
    let name := cur.getD t
    (name, t) :: tokenReads rest (match s with | .space => some name | _ => none)

theorem renderItems_length_cons (t : Bytes) (s : Sep) (rest : List (Bytes × Sep)) :
    (renderItems ((t, s) :: rest)).length = t.length + s.bytes.length + (renderItems rest).length := by
  simp only [renderItems, List.length_append]

/-- the specification's entries, read back from the data, are the line's tokens with their extension names; and the
data starts right after the line -/
theorem spec_reads : ∀ (items : List (Bytes × Sep)), ItemsOk items → ∀ (pre content : Bytes) (last : Option (Nat × Nat))
    (cur : Option Bytes) (es es' : List PEntry) (ds : Nat),
    (∀ n, last = some n → cur = some (extract (pre ++ renderItems items ++ content) n.1 (n.1 + n.2))) →
    (last = none → cur = none) →
    tokensSpec items pre.length last es = some (es', ds) →
    ds = pre.length + (renderItems items).length ∧
    ∃ new, es' = es ++ new ∧ new.map (readEntry (pre ++ renderItems items ++ content)) = tokenReads items cur := by
  intro items
  induction items with
  | nil => intro h; exact absurd h (by simp [ItemsOk])
  | cons it rest ih =>
    obtain ⟨t, s⟩ := it
    intro hok pre content last cur es es' ds hcur hnone h
    generalize hdata : pre ++ renderItems ((t, s) :: rest) ++ content = data at hcur ⊢
    have hd : data = pre ++ t ++ (s.bytes ++ renderItems rest ++ content) := by
      rw [← hdata]; simp only [renderItems, List.append_assoc]
    have hx : extract data pre.length (pre.length + t.length) = t := by rw [hd]; exact extract_at pre t _
    have hread : readEntry data (entryOf last pre.length t.length) = (cur.getD t, t) := by
      cases hl : last with
      | none => simp [entryOf, readEntry, hx, hnone hl]
      | some n => simp [entryOf, readEntry, hx, hcur n hl]
    have hlen := renderItems_length_cons t s rest
    cases rest with
    | nil =>
      obtain ⟨_, heol⟩ := hok
      cases s with
      | space => simp [Sep.isEol] at heol
      | and => simp [Sep.isEol] at heol
      | lf =>
        simp only [tokensSpec, Option.some.injEq, Prod.mk.injEq] at h
        obtain ⟨rfl, rfl⟩ := h
        refine ⟨?_, [entryOf last pre.length t.length], rfl, ?_⟩
        · rw [hlen]; simp only [Sep.bytes, renderItems, List.length_cons, List.length_nil]; omega
        · simp only [List.map_cons, List.map_nil, hread, tokenReads]
      | crlf =>
        simp only [tokensSpec, Option.some.injEq, Prod.mk.injEq] at h
        obtain ⟨rfl, rfl⟩ := h
        refine ⟨?_, [entryOf last pre.length t.length], rfl, ?_⟩
        · rw [hlen]; simp only [Sep.bytes, renderItems, List.length_cons, List.length_nil]; omega
        · simp only [List.map_cons, List.map_nil, hread, tokenReads]
    | cons r rest2 =>
      obtain ⟨_, hne, hrest⟩ := hok
      cases s with
      | lf => simp [Sep.isEol] at hne
      | crlf => simp [Sep.isEol] at hne
      | space =>
        simp only [tokensSpec] at h
        have e3 : pre ++ t ++ [SP] ++ renderItems (r :: rest2) ++ content = data := by
          rw [hd]; simp only [Sep.bytes, List.append_assoc]
        have e4 : (pre ++ t ++ [SP]).length = pre.length + t.length + 1 := by
          simp only [List.length_append, List.length_cons, List.length_nil]
        have := ih hrest (pre ++ t ++ [SP]) content (lastOf last pre.length t.length) (some (cur.getD t))
          (es ++ [entryOf last pre.length t.length]) es' ds
          (by
            intro n hn
            rw [e3]
            cases hl : last with
            | none =>
              rw [hl] at hn; simp only [lastOf, Option.some.injEq] at hn; subst hn
              simp [hnone hl, hx]
            | some m =>
              rw [hl] at hn; simp only [lastOf, Option.some.injEq] at hn; subst hn
              simp [hcur m hl])
          (by intro hl; cases hl' : last <;> simp [lastOf, hl'] at hl)
          (by rw [e4]; exact h)
        rw [e3, e4] at this
        obtain ⟨hds, new, hnew, hmap⟩ := this
        refine ⟨?_, entryOf last pre.length t.length :: new, by rw [hnew]; simp, ?_⟩
        · rw [hds, hlen]; simp only [Sep.bytes, List.length_cons, List.length_nil]; omega
        · simp only [List.map_cons, hread, hmap, tokenReads]
      | and =>
        simp only [tokensSpec] at h
        have e3 : pre ++ t ++ AND ++ renderItems (r :: rest2) ++ content = data := by
          rw [hd]; simp only [Sep.bytes, List.append_assoc]
        have e4 : (pre ++ t ++ AND).length = pre.length + t.length + 4 := by
          simp only [AND, List.length_append, List.length_cons, List.length_nil]
        have := ih hrest (pre ++ t ++ AND) content none none
          (es ++ [entryOf last pre.length t.length]) es' ds
          (by intro n hn; cases hn) (fun _ => rfl) (by rw [e4]; exact h)
        rw [e3, e4] at this
        obtain ⟨hds, new, hnew, hmap⟩ := this
        refine ⟨?_, entryOf last pre.length t.length :: new, by rw [hnew]; simp, ?_⟩
        · rw [hds, hlen]; simp only [Sep.bytes, AND, List.length_cons, List.length_nil]; omega
        · simp only [List.map_cons, hread, hmap, tokenReads]

theorem tokensSpec_some : ∀ (items : List (Bytes × Sep)), ItemsOk items → ∀ (p : Nat) (last : Option (Nat × Nat)) (es : List PEntry),
    ∃ r, tokensSpec items p last es = some r := by
  intro items
  induction items with
  | nil => intro h; exact absurd h (by simp [ItemsOk])
  | cons it rest ih =>
    obtain ⟨t, s⟩ := it
    intro hok p last es
    cases rest with
    | nil =>
      cases s with
      | space => simp [ItemsOk, Sep.isEol] at hok
      | and => simp [ItemsOk, Sep.isEol] at hok
      | lf => exact ⟨_, rfl⟩
      | crlf => exact ⟨_, rfl⟩
    | cons r rest2 =>
      obtain ⟨_, hne, hrest⟩ := hok
      cases s with
      | lf => simp [Sep.isEol] at hne
      | crlf => simp [Sep.isEol] at hne
      | space => simp only [tokensSpec]; exact ih hrest _ _ _
      | and => simp only [tokensSpec]; exact ih hrest _ _ _

/-- **`PresentExtensions::new` on a well-formed `!> ` line** (any tokens, any mix of arguments and ` &> `-separated
extensions, LF or CRLF), followed by any document: it succeeds, the document data starts right after the line, and
the entries — read back from the file — are exactly the line's tokens, each with the name of its extension. -/
theorem parseRaw_render (items : List (Bytes × Sep)) (hok : ItemsOk items) (content : Bytes) :
    ∃ es, parseRaw (PREFIX ++ renderItems items ++ content) = some (es, (PREFIX ++ renderItems items).length) ∧
      es.map (readEntry (PREFIX ++ renderItems items ++ content)) = tokenReads items none := by
  -- the first token does not start with a space
  obtain ⟨t1, s1, rest, hit⟩ : ∃ t1 s1 rest, items = (t1, s1) :: rest := by
    cases items with
    | nil => exact absurd hok (by simp [ItemsOk])
    | cons it rest => exact ⟨it.1, it.2, rest, rfl⟩
  have htok1 : TokOk t1 := by
    subst hit
    cases rest with
    | nil => exact hok.1
    | cons _ _ => exact hok.1
  obtain ⟨c, t1', ht1⟩ : ∃ c t1', t1 = c :: t1' := by
    cases h : t1 with
    | nil => exact absurd h htok1.ne
    | cons c t1' => exact ⟨c, t1', rfl⟩
  have hc : c ≠ SP := (htok1.bytes c (by rw [ht1]; simp)).1
  have hdrop : (PREFIX ++ renderItems items ++ content).drop 3 = renderItems items ++ content := by
    simp [PREFIX, List.append_assoc]
  have hpre : startsWith (PREFIX ++ renderItems items ++ content) PREFIX = true := by
    simp [PREFIX, startsWith]
  have hnand : startsWith (renderItems items ++ content) AND = false := by
    subst hit
    simp only [renderItems, ht1, List.cons_append, AND, startsWith, Bool.and_eq_false_iff]
    left; simpa [SP] using hc
  unfold parseRaw
  rw [hpre, hdrop, hnand]
  simp only [Bool.not_true, Bool.or_self, Bool.false_eq_true, ↓reduceIte]
  have hp := pgo_items items hok PREFIX content none []
  have h3 : PREFIX.length = 3 := rfl
  rw [h3] at hp
  rw [hp]
  obtain ⟨⟨es', ds⟩, hr⟩ := tokensSpec_some items hok 3 none []
  have hs := spec_reads items hok PREFIX content none none [] es' ds (by intro n h; cases h) (fun _ => rfl) (by rw [h3]; exact hr)
  obtain ⟨hds, new, hnew, hmap⟩ := hs
  refine ⟨es', ?_, ?_⟩
  · rw [hr, hds]; simp [h3]
  · rw [hnew]; simpa using hmap

/-! ### lines as lists of extensions -/

structure Ext where
  name : Bytes
  args : List Bytes

/-- the tokens of one extension; `final` follows its last token -/
def tokItems : Bytes → List Bytes → Sep → List (Bytes × Sep)
  | t, [], final => [(t, final)]
  | t, a :: as, final => (t, .space) :: tokItems a as final

def lineItems : List Ext → Sep → List (Bytes × Sep)
  | [], _ => []
  | [e], eol => tokItems e.name e.args eol
  | e :: e2 :: rest, eol => tokItems e.name e.args .and ++ lineItems (e2 :: rest) eol

theorem tokenReads_tokItems (name : Bytes) : ∀ (args : List Bytes) (t : Bytes) (final : Sep) (more : List (Bytes × Sep)),
    final ≠ .space →
    tokenReads (tokItems t args final ++ more) (some name) = (name, t) :: args.map (fun a => (name, a)) ++ tokenReads more none := by
  intro args
  induction args with
  | nil => intro t final more hf; cases final <;> simp_all [tokItems, tokenReads]
  | cons a as ih =>
    intro t final more hf
    simp only [tokItems, List.cons_append, tokenReads, Option.getD_some, List.map_cons]
    rw [ih a final more hf]
    rfl

theorem tokenReads_ext (e : Ext) (final : Sep) (more : List (Bytes × Sep)) (hf : final ≠ .space) :
    tokenReads (tokItems e.name e.args final ++ more) none =
      (e.name, e.name) :: e.args.map (fun a => (e.name, a)) ++ tokenReads more none := by
  cases hargs : e.args with
  | nil => cases final <;> simp_all [tokItems, tokenReads]
  | cons a as =>
    simp only [tokItems, List.cons_append, tokenReads, Option.getD_none, List.map_cons]
    rw [tokenReads_tokItems e.name as a final more hf]
    rfl

/-- the tokens of a line, with their extension names, are the extensions' names and arguments -/
theorem tokenReads_line : ∀ (exts : List Ext) (eol : Sep), eol.isEol = true →
    tokenReads (lineItems exts eol) none = exts.flatMap fun e => (e.name, e.name) :: e.args.map fun a => (e.name, a) := by
  intro exts
  induction exts with
  | nil => intro _ _; rfl
  | cons e rest ih =>
    intro eol heol
    have hne : eol ≠ .space := by intro h; subst h; simp [Sep.isEol] at heol
    cases rest with
    | nil =>
      have := tokenReads_ext e eol [] hne
      simpa [lineItems, tokenReads] using this
    | cons e2 rest2 =>
      simp only [lineItems, List.flatMap_cons]
      rw [tokenReads_ext e .and _ (by decide), ih eol heol]
      simp [List.flatMap_cons]

theorem itemsOk_cons (t : Bytes) (s : Sep) (more : List (Bytes × Sep)) (ht : TokOk t) (hs : s.isEol = false)
    (hm : ItemsOk more) : ItemsOk ((t, s) :: more) := by
  cases more with
  | nil => exact absurd hm (by simp [ItemsOk])
  | cons r rest => exact ⟨ht, hs, hm⟩

theorem itemsOk_tokItems_append : ∀ (args : List Bytes) (t : Bytes) (final : Sep) (more : List (Bytes × Sep)),
    TokOk t → (∀ a ∈ args, TokOk a) → final.isEol = false → ItemsOk more → ItemsOk (tokItems t args final ++ more) := by
  intro args
  induction args with
  | nil => intro t final more ht _ hf hm; exact itemsOk_cons t final more ht hf hm
  | cons a as ih =>
    intro t final more ht ha hf hm
    simp only [tokItems, List.cons_append]
    exact itemsOk_cons t .space _ ht rfl (ih a final more (ha a (by simp)) (fun x hx => ha x (by simp [hx])) hf hm)

theorem itemsOk_tokItems_eol : ∀ (args : List Bytes) (t : Bytes) (final : Sep),
    TokOk t → (∀ a ∈ args, TokOk a) → final.isEol = true → ItemsOk (tokItems t args final) := by
  intro args
  induction args with
  | nil => intro t final ht _ hf; exact ⟨ht, hf⟩
  | cons a as ih =>
    intro t final ht ha hf
    simp only [tokItems]
    exact itemsOk_cons t .space _ ht rfl (ih a final (ha a (by simp)) (fun x hx => ha x (by simp [hx])) hf)

def Ext.Ok (e : Ext) : Prop := TokOk e.name ∧ ∀ a ∈ e.args, TokOk a

theorem itemsOk_line : ∀ (exts : List Ext) (eol : Sep), exts ≠ [] → (∀ e ∈ exts, e.Ok) → eol.isEol = true →
    ItemsOk (lineItems exts eol) := by
  intro exts
  induction exts with
  | nil => intro _ h; exact absurd rfl h
  | cons e rest ih =>
    intro eol _ hok heol
    have he := hok e (by simp)
    cases rest with
    | nil => exact itemsOk_tokItems_eol e.args e.name eol he.1 he.2 heol
    | cons e2 rest2 =>
      simp only [lineItems]
      exact itemsOk_tokItems_append e.args e.name .and _ he.1 he.2 rfl
        (ih eol (by simp) (fun x hx => hok x (by simp [hx])) heol)

/-- the first line of a file as the documentation writes it: `!> name arg … &> name arg …` and LF or CRLF -/
def renderLine (exts : List Ext) (eol : Sep) : Bytes := PREFIX ++ renderItems (lineItems exts eol)

/-- **a rendered `!> ` line parses back to its extensions**: for every non-empty list of extensions (names and
arguments any tokens), either line ending, and every document that follows, `PresentExtensions::new` succeeds, the
document data starts right after the line, and the entries say: each extension's name, then each of its arguments
under that name, in order. -/
theorem present_line_render (exts : List Ext) (eol : Sep) (content : Bytes) (hne : exts ≠ []) (hok : ∀ e ∈ exts, e.Ok)
    (heol : eol.isEol = true) :
    ∃ es, parseRaw (renderLine exts eol ++ content) = some (es, (renderLine exts eol).length) ∧
      es.map (readEntry (renderLine exts eol ++ content)) =
        exts.flatMap fun e => (e.name, e.name) :: e.args.map fun a => (e.name, a) := by
  obtain ⟨es, h1, h2⟩ := parseRaw_render (lineItems exts eol) (itemsOk_line exts eol hne hok heol) content
  refine ⟨es, h1, ?_⟩
  show es.map (readEntry (PREFIX ++ renderItems (lineItems exts eol) ++ content)) = _
  rw [h2, tokenReads_line exts eol heol]

/-! test: `!> hide &> tmpl a b` CRLF `Hello` -/
example : parseRaw (renderLine [⟨[104, 105, 100, 101], []⟩, ⟨[116, 109, 112, 108], [[97], [98]]⟩] .crlf ++ [72, 101, 108, 108, 111]) =
    some ([⟨3, 4, 3, 4⟩, ⟨11, 4, 11, 4⟩, ⟨11, 4, 16, 1⟩, ⟨11, 4, 18, 1⟩], 21) := by decide +kernel

end PresentExt
