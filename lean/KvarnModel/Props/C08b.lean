import KvarnModel.BodyAcct
/-! C08 (C07, C20) — **after a response the connection stands exactly behind the request's body, or it is closed**:
whatever the handler read of the body — nothing, a part, all of it, in one call or several, with any limits — and however
much of the body arrived together with the head, `discard_rest` takes exactly the rest off the socket, or reports that
the connection cannot be used again (more than the limit is left). -/
namespace BodyAcct

/-- the bookkeeping invariant: `max(offset, bytes.len())` is what has been accounted for — the early bytes plus what was
taken off the socket —, never more than the body; a body nobody has read yet is untouched -/
structure Inv (s : St) : Prop where
  early_le : s.early ≤ s.declared
  acct : Nat.max s.offset s.early = s.early + s.taken
  taken_le : s.early + s.taken ≤ s.declared
  fresh : s.contentLength ≠ 0 → s.offset = 0 ∧ s.taken = 0
  cl_le : s.contentLength ≤ s.declared

theorem new_inv (early declared : Nat) (h : early ≤ declared) : Inv (new early declared) := by
  refine ⟨h, ?_, ?_, ?_, ?_⟩ <;> simp [new, Nat.max_def] <;> omega

theorem readToBytes_inv (s : St) (m got : Nat) (h : Inv s) : Inv (readToBytes s m got).1 := by
  obtain ⟨h1, h2, h3, h4, h5⟩ := h
  unfold readToBytes
  simp only
  split
  · exact ⟨h1, h2, h3, h4, h5⟩
  · rename_i hlen
    have hcl : s.contentLength ≠ 0 := by intro hc; simp [hc] at hlen
    obtain ⟨ho, ht⟩ := h4 hcl
    split
    · rename_i hlt
      refine ⟨h1, ?_, ?_, by simp, by simp⟩
      · simp only [Nat.max_def, ht]; split <;> omega
      · simpa using h3
    · rename_i hge
      have hr : rest s = s.declared - s.early := by simp [rest, ht]
      generalize hg : Nat.max (min (min s.contentLength m - s.early) (rest s)) (min got (rest s)) = g
      have hgle : g ≤ s.declared - s.early := by
        rw [← hg, hr]; simp only [Nat.max_def]; split <;> omega
      refine ⟨h1, ?_, ?_, by simp, by simp⟩
      · simp only [Nat.max_def, ht]; split <;> omega
      · simp only [ht]; omega

theorem reads_inv : ∀ (ms : List (Nat × Nat)) (s : St), Inv s → Inv (reads s ms).1 := by
  intro ms
  induction ms with
  | nil => intro s h; exact h
  | cons m ms ih =>
    intro s h
    obtain ⟨m, got⟩ := m
    simp only [reads]
    exact ih _ (readToBytes_inv s m got h)

/-- what the handler gets: the first call the body up to its limit (the whole body is on its way), whatever more the
reads took off the socket -/
theorem first_read_len (early declared m got : Nat) (h : early ≤ declared) :
    (readToBytes (new early declared) m got).2 = min declared m := by
  simp only [readToBytes, new, rest, Nat.sub_zero]
  by_cases h0 : min declared m = 0
  · simp only [h0, ↓reduceIte]
  · simp only [h0, ↓reduceIte]
    by_cases h1 : min declared m < early
    · simp only [h1, ↓reduceIte]
    · simp only [h1, ↓reduceIte, Nat.max_def]
      split <;> omega

/-- a body is handed out once: after a call that asked for anything, every further `read_to_bytes` returns nothing
and takes nothing off the socket -/
theorem later_reads_empty (s : St) (m got m' got' : Nat) (hm : min s.contentLength m ≠ 0) :
    (readToBytes (readToBytes s m got).1 m' got').2 = 0 ∧
    (readToBytes (readToBytes s m got).1 m' got').1 = (readToBytes s m got).1 := by
  have hcl : (readToBytes s m got).1.contentLength = 0 := by
    unfold readToBytes
    simp only [hm, ↓reduceIte]
    split <;> rfl
  unfold readToBytes at hcl ⊢
  simp only [hm, ↓reduceIte] at hcl ⊢
  split
  · simp
  · simp

/-- **in step, or closed**: after any reads, `discard_rest(max)` answers `true` exactly when no more than `max` bytes of
the body are still to come, and then it has taken exactly those off the socket: `taken = declared − early`, the next
byte on the connection is the next request's first -/
theorem discard_in_step (early declared max : Nat) (ms : List (Nat × Nat)) (h : early ≤ declared) :
    let s := (reads (new early declared) ms).1
    ((discardRest s max (rest s)).2 = true ↔ rest s ≤ max) ∧
    ((discardRest s max (rest s)).2 = true → (discardRest s max (rest s)).1.taken = declared - early) ∧
    ((discardRest s max (rest s)).2 = false → (discardRest s max (rest s)).1.taken = s.taken) := by
  intro s
  have hi : Inv s := reads_inv ms _ (new_inv early declared h)
  have hd : s.declared = declared ∧ s.early = early := by
    have : ∀ (ms : List (Nat × Nat)) (t : St), (reads t ms).1.declared = t.declared ∧ (reads t ms).1.early = t.early := by
      intro ms
      induction ms with
      | nil => intro t; exact ⟨rfl, rfl⟩
      | cons m ms ih =>
        intro t
        obtain ⟨m, got⟩ := m
        simp only [reads]
        have h1 := ih (readToBytes t m got).1
        have h2 : (readToBytes t m got).1.declared = t.declared ∧ (readToBytes t m got).1.early = t.early := by
          unfold readToBytes; simp only; split
          · exact ⟨rfl, rfl⟩
          · split <;> exact ⟨rfl, rfl⟩
        exact ⟨h1.1.trans h2.1, h1.2.trans h2.2⟩
    exact this ms (new early declared)
  obtain ⟨h1, h2, h3, _, _⟩ := hi
  have hleft : s.declared - Nat.max s.offset s.early = rest s := by rw [h2]; simp only [rest]; omega
  simp only [discardRest, hleft]
  by_cases hm : rest s > max
  · rw [if_pos hm]
    refine ⟨⟨fun hf => ?_, fun hle => ?_⟩, fun hf => ?_, fun _ => rfl⟩
    · simp at hf
    · omega
    · simp at hf
  · rw [if_neg hm, if_pos (Nat.le_refl _)]
    refine ⟨⟨fun _ => by omega, fun _ => rfl⟩, fun _ => ?_, fun hf => ?_⟩
    · simp only [rest] at *
      omega
    · simp at hf

/-- not vacuous: 20 bytes came with the head of a 300-byte body, the handler reads 50 (the reads take 64 off the socket); the other 216 are discarded -/
example : let s := (reads (new 20 300) [(50, 64)]).1
    s.taken = 64 ∧ (discardRest s 4194304 (rest s)).2 = true ∧ (discardRest s 4194304 (rest s)).1.taken = 280 := by decide

/-- C08-8 (`content_length`, which a partial read has zeroed, for `declared_length`): "nothing left", 250 bytes stay -/
example : let s := (reads (new 20 300) [(50, 30)]).1
    (discardRestC088 s 4194304 (rest s)).2 = true ∧ (discardRestC088 s 4194304 (rest s)).1.taken = 30 := by decide

/-- C20-8 (`bytes.len()` forgotten): 22 bytes "left" of a body that came whole with the head — they are the next request's -/
example : let s := (reads (new 22 22) []).1
    rest s = 0 ∧ (discardRestC208 s 4194304 22).2 = true ∧ (discardRestC208 s 4194304 22).1.taken = 22 := by decide

end BodyAcct
