//! C09 — Range parsing + slicing: `sanitize_request` + `apply_to_response`.
use crate::common::*;
use bytes::Bytes;

pub struct Reply;

pub fn range_reply(body: &[u8], hdr: Option<&[u8]>) -> String {
    let mut req = http::Request::builder().method("GET").uri("/x");
    if let Some(h) = hdr {
        match http::HeaderValue::from_bytes(h) {
            Ok(v) => req = req.header("range", v),
            Err(_) => return "invalid-header-value".into(),
        }
    }
    let req = req.body(()).unwrap();
    let comp = match kvarn_utils::parse::sanitize_request(&req) {
        Ok(c) => c,
        Err(kvarn_utils::parse::SanitizeError::RangeNotSatisfiable) => return "416".into(),
        Err(kvarn_utils::parse::SanitizeError::UnsafePath) => return "400".into(),
    };
    let mut resp = http::Response::new(Bytes::copy_from_slice(body));
    match comp.apply_to_response(&mut resp, None, false) {
        Err(_) => "416".into(),
        Ok(()) => format!(
            "{} body={} cr={} ar={}",
            resp.status().as_u16(),
            hex(resp.body()),
            resp.headers().get("content-range").map(|v| hex(v.as_bytes())).unwrap_or("none".into()),
            b01(resp.headers().get("accept-ranges").is_some())
        ),
    }
}

fn body_of(n: usize) -> Vec<u8> {
    (0..n).map(|i| b'a' + (i % 26) as u8).collect()
}

impl Group for Reply {
    fn name(&self) -> &'static str {
        "c09.reply"
    }
    fn rule(&self) -> &'static str {
        "sanitize_request + apply_to_response on synthetic 200 responses: body lengths 0..=12 x all (a,b) <= 14 x boundary values (2^32±1, 2^63, 2^64-2, 2^64-1, 2^64) x syntactic variants (+1, leading zeros, spaces, other units, several ranges, suffix/open, empty, non-ASCII); non-trivial = header present"
    }
    fn generate(&self, ctx: &Ctx, rng: &mut Rng) -> Vec<String> {
        let mut v = Vec::new();
        let big: [&str; 9] = ["4294967295", "4294967296", "4294967297", "9223372036854775808", "18446744073709551614", "18446744073709551615", "18446744073709551616", "99999999999999999999999", "0"];
        for len in 0..=12usize {
            let b = hex(&body_of(len));
            v.push(format!("c09.reply {b} none"));
            for a in 0..=14 {
                for e in 0..=14 {
                    v.push(format!("c09.reply {b} {}", hex(format!("bytes={a}-{e}").as_bytes())));
                }
                for e in big {
                    v.push(format!("c09.reply {b} {}", hex(format!("bytes={a}-{e}").as_bytes())));
                    v.push(format!("c09.reply {b} {}", hex(format!("bytes={e}-{a}").as_bytes())));
                }
            }
            for var in [
                "bytes=+1-3", "bytes=1-+3", "bytes=01-003", "bytes= 1-3", "bytes=1-3 ", "bytes = 1-3", "bytes=1 - 3", "items=1-3", "Bytes=1-3", "BYTES=1-3",
                "bytes=0-1,2-3", "bytes=0-1, 2-3", "bytes=-5", "bytes=5-", "bytes=-", "bytes=", "", "bytes", "bytes=a-b", "bytes=1-b", "bytes=1--3", "bytes=-1-3",
                "bytes=1-3-5", "bytes=0x1-3", "bytes=1.0-3", "bytes=1-3;q=1", "bytes=\t1-3", "bytes=1-\u{e9}", "bytes=++1-3", "bytes=+-3", "bytes=0-+", "=1-3", "bytes=1_0-3",
                "bytes=18446744073709551615-18446744073709551615", "bytes=18446744073709551616-18446744073709551616", "bytes=0-00000000000000000000000000005",
                // a repeated unit or separator is not the grammar's `bytes=<first>-<last>` either
                "bytes=bytes=1-3", "bytes=bytes=bytes=0-5", "bytes=bytes=5-3", "bytes=bytes=40-400", "bytes==1-3", "bytes=1-3bytes=", "bytes=1-bytes=3",
            ] {
                v.push(format!("c09.reply {b} {}", hex(var.as_bytes())));
            }
        }
        let n = if ctx.mode == Mode::Quick { 3000 } else { 200_000 };
        let toks: [&str; 16] = ["bytes", "=", "-", "0", "1", "9", "+", " ", ",", "18446744073709551615", "b", "\u{fc}", "5", "12", "=", "-"];
        for _ in 0..n {
            let len = rng.below(70);
            let b = hex(&body_of(len));
            let h = if rng.chance(1, 2) {
                let a = rng.below(len + 3);
                let e = rng.below(len + 5);
                format!("bytes={a}-{e}")
            } else if rng.chance(1, 3) {
                // one edit of a well-formed header: a piece repeated, inserted, dropped or re-cased
                let a = rng.below(len + 3);
                let e = rng.below(len + 5);
                let parts = ["bytes=".to_owned(), a.to_string(), "-".to_owned(), e.to_string()];
                let i = rng.below(4);
                let mut s = String::new();
                let edit = rng.below(5);
                for (j, p) in parts.iter().enumerate() {
                    if j == i {
                        match edit {
                            0 => { s.push_str(p); s.push_str(p); }
                            1 => { s.push_str(p); s.push_str(p); s.push_str(p); }
                            2 => { s.push_str(*rng.pick(&toks[..])); s.push_str(p); }
                            3 => {}
                            _ => s.push_str(&p.to_uppercase()),
                        }
                    } else {
                        s.push_str(p);
                    }
                }
                s
            } else {
                let k = rng.range(1, 7);
                let mut s = if rng.chance(2, 3) { String::from("bytes=") } else { String::new() };
                for _ in 0..k {
                    s.push_str(*rng.pick(&toks[..]));
                }
                s
            };
            v.push(format!("c09.reply {b} {}", hex(h.as_bytes())));
        }
        v
    }
    fn run_impl(&self, _ctx: &Ctx, line: &str) -> String {
        let mut it = line.split(' ');
        it.next();
        let body = unhex(it.next().unwrap()).unwrap();
        let h = it.next().unwrap();
        let hdr = if h == "none" { None } else { Some(unhex(h).unwrap()) };
        range_reply(&body, hdr.as_deref())
    }
    /// Independent reference written from the statement of C09 (not from the code).
    fn oracle(&self, _ctx: &Ctx, line: &str, out: &str) -> Option<(String, String)> {
        let mut it = line.split(' ');
        it.next();
        let body = unhex(it.next().unwrap()).unwrap();
        let h = it.next().unwrap();
        let key = |k: &str| format!("{k}:len={}:{}", body.len(), if h == "none" { "none".into() } else { String::from_utf8_lossy(&unhex(h).unwrap()).into_owned() });
        if out == "panic" {
            return Some((key("panic"), "panic in sanitize_request/apply_to_response".into()));
        }
        let full = format!("200 body={} cr=none ar={}", hex(&body), b01(!body.is_empty()));
        let hdr = if h == "none" { None } else { Some(unhex(h).unwrap()) };
        let expect: Option<String> = match &hdr {
            None => Some(full),
            Some(hv) => {
                let s = String::from_utf8_lossy(hv).into_owned();
                let digits = |x: &str| !x.is_empty() && x.bytes().all(|c| c.is_ascii_digit());
                if let Some(rest) = s.strip_prefix("bytes=") {
                    let parts: Vec<&str> = rest.splitn(2, '-').collect();
                    if parts.len() == 2 && digits(parts[0]) && digits(parts[1]) {
                        match (parts[0].parse::<u64>(), parts[1].parse::<u64>()) {
                            (Ok(a), Ok(b)) => {
                                let len = body.len() as u64;
                                if a > b || a >= len {
                                    Some("416".into())
                                } else {
                                    let e = b.min(len - 1);
                                    Some(format!(
                                        "206 body={} cr={} ar=0",
                                        hex(&body[a as usize..=e as usize]),
                                        hex(format!("bytes {a}-{e}/{len}").as_bytes())
                                    ))
                                }
                            }
                            // numbers beyond 2^64
                            _ => Some(full),
                        }
                    } else {
                        // "anything else": several ranges, suffix and open ranges, a repeated unit, stray bytes, a sign
                        // (`+1` is a number to `u64::from_str`, not to the grammar of a byte range: finding F40)
                        Some(full)
                    }
                } else {
                    // other units, other spellings of the unit, no unit
                    Some(full)
                }
            }
        };
        match expect {
            Some(e) if e != out => Some((key("range"), format!("expected `{e}`, got `{out}`"))),
            _ => None,
        }
    }
    fn nontrivial(&self, line: &str, _o: &str) -> bool {
        !line.ends_with(" none")
    }
    fn classify(&self, _l: &str, o: &str) -> String {
        o.split(' ').next().unwrap_or("").to_owned()
    }
}

/// tiling: consecutive ranges reconstruct the representation (oracle only — the theorem is `Range.tiling`)
pub struct Tiling;
impl Group for Tiling {
    fn name(&self) -> &'static str {
        "c09.tiling"
    }
    fn rule(&self) -> &'static str {
        "random cut points 0=c0<…<cn=len on bodies up to 300 bytes; the bodies of the ranges ci-(c(i+1)-1) are concatenated and compared with the representation; oracle only; non-trivial = at least two pieces"
    }
    fn compare_with_model(&self, _l: &str) -> bool {
        false
    }
    fn generate(&self, ctx: &Ctx, rng: &mut Rng) -> Vec<String> {
        let n = if ctx.mode == Mode::Quick { 300 } else { 20_000 };
        (0..n)
            .map(|_| {
                let len = rng.range(1, 300);
                let mut cuts: Vec<usize> = (0..rng.below(6)).map(|_| rng.range(1, len)).collect();
                cuts.push(0);
                cuts.push(len);
                cuts.sort_unstable();
                cuts.dedup();
                format!("c09.tiling {len} {}", list(cuts.iter().map(|c| c.to_string())))
            })
            .collect()
    }
    fn run_impl(&self, _ctx: &Ctx, line: &str) -> String {
        let mut it = line.split(' ');
        it.next();
        let len: usize = it.next().unwrap().parse().unwrap();
        let cuts: Vec<usize> = parse_list(it.next().unwrap()).unwrap().iter().map(|s| s.parse().unwrap()).collect();
        let body = body_of(len);
        let mut acc = Vec::new();
        for w in cuts.windows(2) {
            let r = range_reply(&body, Some(format!("bytes={}-{}", w[0], w[1] - 1).as_bytes()));
            let Some(b) = r.strip_prefix("206 body=").and_then(|r| r.split(' ').next()).and_then(unhex) else {
                return format!("piece {}-{} -> {r}", w[0], w[1] - 1);
            };
            acc.extend(b);
        }
        if acc == body {
            "ok".into()
        } else {
            format!("mismatch {}", hex(&acc))
        }
    }
    fn oracle(&self, _ctx: &Ctx, line: &str, out: &str) -> Option<(String, String)> {
        if out == "ok" {
            None
        } else {
            Some((format!("tiling:{line}"), format!("tiling does not reconstruct the body: {out}")))
        }
    }
    fn nontrivial(&self, line: &str, _o: &str) -> bool {
        line.matches(',').count() >= 2
    }
}

/// C09 on the wire: the glue between the range parser and the response — `handle_cache`'s guard on cache hits,
/// `SendKind::send`, the 416 answer — on a real server, cold and after the resource went into the response cache.
pub struct Wire;

fn statement_expect(body: &[u8], hv: &[u8]) -> Option<(u16, Vec<u8>, Option<String>)> {
    let s = String::from_utf8_lossy(hv).into_owned();
    let digits = |x: &str| !x.is_empty() && x.bytes().all(|c| c.is_ascii_digit());
    let Some(rest) = s.strip_prefix("bytes=") else { return Some((200, body.to_vec(), None)) };
    let parts: Vec<&str> = rest.splitn(2, '-').collect();
    if parts.len() == 2 && digits(parts[0]) && digits(parts[1]) {
        return match (parts[0].parse::<u64>(), parts[1].parse::<u64>()) {
            (Ok(a), Ok(b)) => {
                let len = body.len() as u64;
                if a > b || a >= len {
                    Some((416, vec![], None))
                } else {
                    let e = b.min(len - 1);
                    Some((206, body[a as usize..=e as usize].to_vec(), Some(format!("bytes {a}-{e}/{len}"))))
                }
            }
            _ => Some((200, body.to_vec(), None)),
        };
    }
    // "anything else" is the full response
    Some((200, body.to_vec(), None))
}

impl Group for Wire {
    // a real server / real sockets with read timeouts: a failure counts if it shows again when the same case is re-run
    fn timing_sensitive(&self) -> bool {
        true
    }
    fn name(&self) -> &'static str {
        "c09.wire"
    }
    fn rule(&self) -> &'static str {
        "a real loopback server with a cached and an uncached handler (bodies 0-40 bytes): 0-2 plain GETs (so that the ranged request is answered from the response cache or not), then GET or HEAD with a Range header from the c09.reply generator (valid, clamped, inverted, beyond the end, boundary values to 2^64, several ranges, suffix/open, other units), all on one connection; GET replies compared with the range model; oracle from the statement for GET and HEAD (status, body slice, content-range, content-length; HEAD without a body); non-trivial = a Range header on a warmed cached resource"
    }
    fn parallel(&self) -> bool {
        false
    }
    fn generate(&self, ctx: &Ctx, rng: &mut Rng) -> Vec<String> {
        let n = if ctx.mode == Mode::Quick { 220 } else { 6000 };
        let mut v = Vec::new();
        let fixed = ["bytes=5-3", "bytes=1-0", "bytes=0-0", "bytes=2-5", "bytes=0-100", "bytes=30-40", "bytes=18446744073709551615-0", "bytes=0-18446744073709551615", "bytes=3-", "bytes=-3", "bytes=0-1,3-4", "items=0-1", "bytes=bytes=0-3", "bytes=bytes=30-20", "bytes=18446744073709551616-18446744073709551617"];
        for h in fixed {
            for warm in [0, 1, 2] {
                for m in ["G", "H"] {
                    v.push(format!("c09.wire c 12 {warm} {m} {}", hex(h.as_bytes())));
                }
            }
            v.push(format!("c09.wire u 12 1 G {}", hex(h.as_bytes())));
        }
        for _ in 0..n {
            let len = *rng.pick(&[0usize, 1, 2, 5, 12, 40]);
            let a = rng.below(len + 3);
            let b = rng.below(len + 3);
            let h = match rng.below(10) {
                0 => format!("bytes={a}-"),
                1 => format!("bytes=-{b}"),
                2 => format!("bytes={a}-{b},{b}-{a}"),
                3 => format!("bytes={}-{b}", *rng.pick(&["18446744073709551615", "18446744073709551616", "4294967296", "9223372036854775808"])),
                4 => format!("bytes={a}-{}", *rng.pick(&["18446744073709551615", "18446744073709551614", "18446744073709551616", "4294967295"])),
                _ => format!("bytes={a}-{b}"),
            };
            v.push(format!("c09.wire {} {len} {} {} {}", if rng.chance(4, 5) { "c" } else { "u" }, rng.below(3), if rng.chance(3, 4) { "G" } else { "H" }, hex(h.as_bytes())));
        }
        v
    }
    fn driver_line(&self, line: &str) -> String {
        let p: Vec<&str> = line.split(' ').collect();
        let len: usize = p[2].parse().unwrap();
        format!("c09.reply {} {}", hex(&body_of(len)), p[5])
    }
    fn compare_with_model(&self, line: &str) -> bool {
        line.split(' ').nth(4) == Some("G")
    }
    fn canon(&self, out: &str) -> String {
        // accept-ranges is not part of the statement; the wire reply is compared on status, body and content-range
        out.split(" ar=").next().unwrap_or(out).to_owned()
    }
    fn run_impl(&self, _ctx: &Ctx, line: &str) -> String {
        use crate::server::*;
        use kvarn::prelude::*;
        let p: Vec<&str> = line.split(' ').collect();
        let len: usize = p[2].parse().unwrap();
        let warm: usize = p[3].parse().unwrap();
        let head = p[4] == "H";
        let hv = unhex(p[5]).unwrap();
        let body = body_of(len);
        let mut ext = Extensions::empty();
        let b1 = Bytes::from(body.clone());
        ext.add_prepare_single("/c", prepare!(_r, _h, _p, _a, move |b1: Bytes| {
            let mut r = Response::new(b1.clone());
            r.headers_mut().insert("content-type", HeaderValue::from_static("text/plain"));
            FatResponse::cache(r)
        }));
        let b2 = Bytes::from(body.clone());
        ext.add_prepare_single("/u", prepare!(_r, _h, _p, _a, move |b2: Bytes| {
            let mut r = Response::new(b2.clone());
            r.headers_mut().insert("content-type", HeaderValue::from_static("text/plain"));
            FatResponse::no_cache(r)
        }));
        let mut host = Host::unsecure("localhost", "/nonexistent", ext, host::Options::default());
        host.limiter.disable();
        let Some(srv) = TestServer::try_start(HostCollection::builder().insert(host).build()) else { return "inconclusive: server did not start".into() };
        let Some(stream) = connect_retry(srv.port) else { srv.stop(); return "inconclusive: connect".into() };
        let mut cl = StrictClient::new(stream);
        let path = format!("/{}", p[1]);
        let mut out = String::new();
        for _ in 0..warm {
            if cl.send(format!("GET {path} HTTP/1.1\r\nhost: localhost\r\n\r\n").as_bytes()).is_err() { srv.stop(); return "inconclusive: send".into(); }
            match cl.read_response(false) {
                Ok(r) if r.status == 200 && r.body == body => {}
                Ok(r) => { out = format!("warm-up GET answered {} with {} body bytes", r.status, r.body.len()); break; }
                Err(e) => { out = format!("warm-up GET: {e:?}"); break; }
            }
        }
        if out.is_empty() {
            let mut req = format!("{} {path} HTTP/1.1\r\nhost: localhost\r\nrange: ", if head { "HEAD" } else { "GET" }).into_bytes();
            req.extend_from_slice(&hv);
            req.extend_from_slice(b"\r\n\r\n");
            if cl.send(&req).is_err() { srv.stop(); return "inconclusive: send".into(); }
            out = match cl.read_response(head) {
                Err(e) => format!("no-response {e:?}"),
                Ok(r) => {
                    let cr = r.header("content-range").map(|v| hex(v)).unwrap_or("none".into());
                    let cl_h = r.header("content-length").map(|v| String::from_utf8_lossy(v).into_owned()).unwrap_or("none".into());
                    if head {
                        format!("H {} cr={cr} cl={cl_h} bodybytes={}", r.status, r.body.len())
                    } else if r.status == 416 {
                        "416".into()
                    } else {
                        format!("{} body={} cr={cr} ar={}", r.status, hex(&r.body), b01(r.header("accept-ranges").is_some()))
                    }
                }
            };
        }
        srv.stop();
        out
    }
    fn oracle(&self, _ctx: &Ctx, line: &str, out: &str) -> Option<(String, String)> {
        let p: Vec<&str> = line.split(' ').collect();
        let len: usize = p[2].parse().unwrap();
        let hv = unhex(p[5]).unwrap();
        let body = body_of(len);
        let key = format!("wire:{}:{}:len={len}:{}", p[1], p[4], String::from_utf8_lossy(&hv));
        if out.starts_with("warm-up") || out.starts_with("no-response") || out == "panic" {
            return Some((key, out.to_owned()));
        }
        let (status, slice, cr) = statement_expect(&body, &hv)?;
        let crh = cr.as_ref().map(|c| hex(c.as_bytes())).unwrap_or("none".into());
        let expect = if p[4] == "H" {
            // a 416 carries an error page: its length is not the statement's business
            if status == 416 { if out.starts_with("H 416 ") && out.ends_with("bodybytes=0") { return None; } "H 416 … bodybytes=0".to_owned() } else { format!("H {status} cr={crh} cl={} bodybytes=0", slice.len()) }
        } else if status == 416 {
            "416".to_owned()
        } else {
            format!("{status} body={} cr={crh}", hex(&slice))
        };
        let got = out.split(" ar=").next().unwrap_or(out);
        if got != expect {
            return Some((key, format!("expected `{expect}`, got `{got}` (after {} plain GETs)", p[3])));
        }
        None
    }
    fn nontrivial(&self, line: &str, _o: &str) -> bool {
        let p: Vec<&str> = line.split(' ').collect();
        p[1] == "c" && p[3] != "0"
    }
    fn classify(&self, line: &str, o: &str) -> String {
        let p: Vec<&str> = line.split(' ').collect();
        format!("{}{} {}", p[1], if p[3] == "0" { "-cold" } else { "-warm" }, o.split(' ').take(if o.starts_with('H') { 2 } else { 1 }).collect::<Vec<_>>().join(" "))
    }
}

/// "bytes a..b of the representation that a request without Range would receive": with a negotiated content encoding the
/// representation is the *encoded* body — on a cold cache, on a warm one, for cached and uncached handlers alike.
pub struct Repr;
impl Group for Repr {
    fn timing_sensitive(&self) -> bool {
        true
    }
    fn name(&self) -> &'static str {
        "c09.repr"
    }
    fn rule(&self) -> &'static str {
        "a real loopback server, a cached and an uncached handler with a compressible 600-byte text body; one connection: 0-1 plain GETs with `accept-encoding: <gzip|br|zstd|none>`, a ranged GET with the same accept-encoding (cold or warm), a GET without Range (the representation), the ranged GET once more; oracle from the statement: both ranged replies are the slice / 416 / full reply that the statement prescribes for the *representation the GET without Range received* (same content-encoding, content-range total = its length); ranges around the compressed and the identity length; the first ranged reply is also compared with the range model applied to the observed representation; non-trivial = an encoding was negotiated"
    }
    fn parallel(&self) -> bool {
        false
    }
    /// the range model applied to the representation that was observed for the request without Range
    fn driver_line_with(&self, line: &str, impl_out: &str) -> String {
        let p: Vec<&str> = line.split(' ').collect();
        let full = impl_out.split(" | ").nth(1).and_then(|f| f.split(' ').find_map(|t| t.strip_prefix("body="))).unwrap_or("-");
        format!("c09.reply {full} {}", hex(format!("bytes={}-{}", p[4], p[5]).as_bytes()))
    }
    fn compare_with_model(&self, _line: &str) -> bool {
        true
    }
    /// both sides as `status body cr` of the first ranged reply
    fn canon(&self, out: &str) -> String {
        if let Some(first) = out.strip_prefix("first: ") {
            let first = first.split(" | ").next().unwrap_or("");
            let field = |k: &str| first.split(' ').find_map(|t| t.strip_prefix(k)).unwrap_or("").to_owned();
            let status = first.split(' ').next().unwrap_or("");
            if status == "416" { return "416".into(); }
            return format!("{status} body={} cr={}", field("body="), field("cr=").replace('_', " "));
        }
        // the model's line: `206 body=<hex> cr=<hex of the header> ar=…`
        let mut it = out.split(' ');
        let status = it.next().unwrap_or("");
        if status == "416" { return "416".into(); }
        let field = |k: &str| out.split(' ').find_map(|t| t.strip_prefix(k)).unwrap_or("").to_owned();
        let cr = field("cr=");
        let cr = if cr == "none" { cr } else { unhex(&cr).map(|b| String::from_utf8_lossy(&b).into_owned()).unwrap_or(cr) };
        format!("{status} body={} cr={cr}", field("body="))
    }
    fn generate(&self, ctx: &Ctx, rng: &mut Rng) -> Vec<String> {
        let mut v = Vec::new();
        let ranges = [(0usize, 9usize), (5, 60), (10, 2000), (50, 599), (150, 400), (620, 700)];
        for enc in ["gzip", "br", "zstd", "none"] {
            for which in ["c", "u"] {
                for warm in [0, 1] {
                    for (a, b) in ranges {
                        if ctx.mode == Mode::Quick && enc != "gzip" && !rng.chance(1, 3) { continue; }
                        v.push(format!("c09.repr {which} {enc} {warm} {a} {b}"));
                    }
                }
            }
        }
        v
    }
    fn run_impl(&self, _ctx: &Ctx, line: &str) -> String {
        use crate::server::*;
        use kvarn::prelude::*;
        let p: Vec<&str> = line.split(' ').collect();
        let (enc, warm, a, b): (&str, usize, usize, usize) = (p[2], p[3].parse().unwrap(), p[4].parse().unwrap(), p[5].parse().unwrap());
        let body: Vec<u8> = (0..600).map(|i| b"the quick brown fox jumps over the lazy dog. "[i % 45]).collect();
        let mut ext = Extensions::empty();
        let b1 = Bytes::from(body.clone());
        ext.add_prepare_single("/c", prepare!(_r, _h, _p, _a, move |b1: Bytes| {
            let mut r = Response::new(b1.clone());
            r.headers_mut().insert("content-type", HeaderValue::from_static("text/plain"));
            FatResponse::cache(r)
        }));
        let b2 = Bytes::from(body.clone());
        ext.add_prepare_single("/u", prepare!(_r, _h, _p, _a, move |b2: Bytes| {
            let mut r = Response::new(b2.clone());
            r.headers_mut().insert("content-type", HeaderValue::from_static("text/plain"));
            FatResponse::no_cache(r)
        }));
        let mut host = Host::unsecure("localhost", "/nonexistent", ext, host::Options::default());
        host.limiter.disable();
        let Some(srv) = TestServer::try_start(HostCollection::builder().insert(host).build()) else { return "inconclusive: server did not start".into() };
        let Some(stream) = connect_retry(srv.port) else { srv.stop(); return "inconclusive: connect".into() };
        let mut cl = StrictClient::new(stream);
        let ae = if enc == "none" { String::new() } else { format!("accept-encoding: {enc}\r\n") };
        let mut get = |cl: &mut StrictClient, range: Option<(usize, usize)>| -> Result<RawResponse, String> {
            let r = range.map(|(a, b)| format!("range: bytes={a}-{b}\r\n")).unwrap_or_default();
            cl.send(format!("GET /{} HTTP/1.1\r\nhost: localhost\r\n{ae}{r}\r\n", p[1]).as_bytes()).map_err(|e| format!("inconclusive: send {e}"))?;
            cl.read_response(false).map_err(|e| format!("no-response {e:?}"))
        };
        let show = |r: &RawResponse| {
            format!("{} ce={} cr={} body={}", r.status, r.header("content-encoding").map(|v| String::from_utf8_lossy(v).into_owned()).unwrap_or("none".into()),
                r.header("content-range").map(|v| String::from_utf8_lossy(v).replace(' ', "_")).unwrap_or("none".into()), if r.status == 416 { "-".to_owned() } else { hex(&r.body) })
        };
        let mut run = || -> Result<String, String> {
            for _ in 0..warm { get(&mut cl, None)?; }
            let r1 = get(&mut cl, Some((a, b)))?;
            let full = get(&mut cl, None)?;
            let r2 = get(&mut cl, Some((a, b)))?;
            Ok(format!("first: {} | full: {} | again: {}", show(&r1), show(&full), show(&r2)))
        };
        let out = run().unwrap_or_else(|e| e);
        srv.stop();
        out
    }
    fn oracle(&self, _ctx: &Ctx, line: &str, out: &str) -> Option<(String, String)> {
        let p: Vec<&str> = line.split(' ').collect();
        let key = format!("repr:{line}");
        if out.starts_with("inconclusive") { return None; }
        if out.starts_with("no-response") || out == "panic" { return Some((key, out.to_owned())); }
        let parts: Vec<&str> = out.split(" | ").collect();
        if parts.len() != 3 { return Some((key, format!("unexpected output {out}"))); }
        let field = |s: &str, k: &str| s.split(' ').find_map(|t| t.strip_prefix(k)).unwrap_or("").to_owned();
        let full = parts[1].strip_prefix("full: ")?;
        if !full.starts_with("200 ") { return Some((key, format!("the GET without Range was answered {full}"))); }
        let (fce, fbody) = (field(full, "ce="), unhex(&field(full, "body="))?);
        if p[2] != "none" && fce != p[2] { return Some((key, format!("accept-encoding: {} alone, but the full reply is labelled `{fce}`", p[2]))); }
        let hv = format!("bytes={}-{}", p[4], p[5]);
        let (status, slice, cr) = statement_expect(&fbody, hv.as_bytes())?;
        let expect = if status == 416 { "416".to_owned() } else { format!("{status} ce={fce} cr={} body={}", cr.map(|c| c.replace(' ', "_")).unwrap_or("none".into()), hex(&slice)) };
        for (name, part) in [("first", parts[0]), ("again", parts[2])] {
            let got = part.split_once(": ")?.1;
            let got = if got.starts_with("416 ") { "416" } else { got };
            if got != expect {
                let short = |s: &str| if s.len() > 160 { format!("{}…", &s[..160]) } else { s.to_owned() };
                return Some((key, format!("the representation a request without Range receives has {} bytes ({fce}); `{hv}` ({name}, {}) should be `{}`, got `{}`", fbody.len(), if name == "first" && p[3] == "0" { "cold" } else { "warm" }, short(&expect), short(got))));
            }
        }
        None
    }
    fn nontrivial(&self, line: &str, _o: &str) -> bool {
        line.split(' ').nth(2) != Some("none")
    }
    fn classify(&self, line: &str, o: &str) -> String {
        let p: Vec<&str> = line.split(' ').collect();
        format!("{} {} {} {}", p[1], p[2], if p[3] == "0" { "cold" } else { "warm" }, o.split(' ').nth(1).unwrap_or(""))
    }
}
