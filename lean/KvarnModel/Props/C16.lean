import KvarnModel.Registry
/-! C16 — extensions run in priority order and registry edits do what they say. Property theorems
(registry part; the `!> ` line parser is in `Props/C16b.lean`). -/
namespace Registry
open BinSearch

theorem prioAt_eq (l : RList) (i : Nat) (h : i < l.length) : prioAt l i = l[i].1 := by
  simp [prioAt, List.getD_eq_getElem?_getD, List.getElem?_eq_getElem h]

theorem desc_lt (l : RList) (hd : Desc l) (i j : Nat) (hij : i < j) (hj : j < l.length) :
    prioAt l i > prioAt l j := by
  rw [prioAt_eq l i (by omega), prioAt_eq l j hj]
  exact (List.pairwise_iff_getElem.1 hd) i j (by omega) hj hij

theorem compare_lt_iff (a b : Int) : compare a b = .lt ↔ a < b := Int.compare_eq_lt
theorem compare_gt_iff (a b : Int) : compare a b = .gt ↔ a > b := Int.compare_eq_gt
theorem compare_eq_iff' (a b : Int) : compare a b = .eq ↔ a = b := Int.compare_eq_eq

theorem mono_of_desc (l : RList) (hd : Desc l) (p : Int) :
    Mono (fun i => compare p (prioAt l i)) l.length := by
  intro i j hij hj
  by_cases he : i = j
  · subst he; exact ⟨id, id⟩
  · have := desc_lt l hd i j (by omega) hj
    constructor
    · intro h; rw [compare_gt_iff] at *; omega
    · intro h; rw [compare_lt_iff] at *; omega

/-- decomposition when the priority is present -/
theorem find_found (l : RList) (hd : Desc l) (p : Int) (pos : Nat) (h : find l p = (pos, true)) :
    ∃ A B t, l = A ++ (p, t) :: B ∧ A.length = pos ∧ (∀ a ∈ A, a.1 > p) ∧ (∀ b ∈ B, b.1 < p) := by
  obtain ⟨hlt, heq⟩ := search_found _ _ (mono_of_desc l hd p) pos h
  rw [compare_eq_iff', prioAt_eq l pos hlt] at heq
  refine ⟨l.take pos, l.drop (pos + 1), l[pos].2, ?_, by simp [List.length_take]; omega, ?_, ?_⟩
  · have : (p, l[pos].2) = l[pos] := by rw [heq]
    rw [this]; simp
  · intro a ha
    obtain ⟨i, hi, rfl⟩ := List.mem_iff_getElem.1 ha
    simp only [List.length_take] at hi
    rw [List.getElem_take]
    have := desc_lt l hd i pos (by omega) hlt
    rw [prioAt_eq l i (by omega), prioAt_eq l pos hlt] at this
    omega
  · intro b hb
    obtain ⟨i, hi, rfl⟩ := List.mem_iff_getElem.1 hb
    simp only [List.length_drop] at hi
    rw [List.getElem_drop]
    have := desc_lt l hd pos (pos + 1 + i) (by omega) (by omega)
    rw [prioAt_eq l (pos + 1 + i) (by omega), prioAt_eq l pos hlt] at this
    omega

/-- decomposition when it is absent: `pos` is the insertion point -/
theorem find_absent (l : RList) (hd : Desc l) (p : Int) (pos : Nat) (h : find l p = (pos, false)) :
    ∃ A B, l = A ++ B ∧ A.length = pos ∧ (∀ a ∈ A, a.1 > p) ∧ (∀ b ∈ B, b.1 < p) := by
  obtain ⟨hle, hbefore, hafter⟩ := search_not_found _ _ (mono_of_desc l hd p) pos h
  refine ⟨l.take pos, l.drop pos, by simp, by simp [List.length_take]; omega, ?_, ?_⟩
  · intro a ha
    obtain ⟨i, hi, rfl⟩ := List.mem_iff_getElem.1 ha
    simp only [List.length_take] at hi
    rw [List.getElem_take]
    have := hbefore i (by omega)
    rw [compare_lt_iff, prioAt_eq l i (by omega)] at this
    omega
  · intro b hb
    obtain ⟨i, hi, rfl⟩ := List.mem_iff_getElem.1 hb
    simp only [List.length_drop] at hi
    rw [List.getElem_drop]
    have := hafter (pos + i) (by omega) (by omega)
    rw [compare_gt_iff, prioAt_eq l _ (by omega)] at this
    omega

theorem desc_mid (A B : RList) (x : Entry) (hA : ∀ a ∈ A, a.1 > x.1) (hB : ∀ b ∈ B, b.1 < x.1)
    (hd : Desc (A ++ B)) : Desc (A ++ x :: B) := by
  unfold Desc at *
  rw [List.pairwise_append] at hd ⊢
  obtain ⟨h1, h2, h3⟩ := hd
  refine ⟨h1, List.pairwise_cons.2 ⟨fun b hb => hB b hb, h2⟩, ?_⟩
  intro a ha b hb
  simp only [List.mem_cons] at hb
  rcases hb with rfl | hb
  · exact hA a ha
  · exact h3 a ha b hb

theorem desc_drop_mid (A B : RList) (x : Entry) (hd : Desc (A ++ x :: B)) : Desc (A ++ B) := by
  unfold Desc at *
  rw [List.pairwise_append] at hd ⊢
  obtain ⟨h1, h2, h3⟩ := hd
  exact ⟨h1, (List.pairwise_cons.1 h2).2, fun a ha b hb => h3 a ha b (by simp [hb])⟩

theorem take_drop_split (A B : RList) (x : Entry) :
    (A ++ x :: B).take A.length = A ∧ (A ++ x :: B).drop (A.length + 1) = B ∧
    (A ++ B).take A.length = A ∧ (A ++ B).drop A.length = B := by
  refine ⟨by simp, ?_, by simp, by simp⟩
  rw [show A ++ x :: B = (A ++ [x]) ++ B by simp]
  exact List.drop_left' (by simp)

/-- what a successful `add` does, in the statement's words -/
structure AddSpec (l l' : RList) (p : Int) (no : Bool) (tag : Nat) : Prop where
  desc : Desc l'
  /-- the priority actually used -/
  used : ∃ p', (no = false → p' = p) ∧
    (no = true → p' ≤ p ∧ (∀ t, (p', t) ∉ l) ∧ ∀ q, p' < q → q ≤ p → ∃ t, (q, t) ∈ l) ∧
    (∀ e, e ∈ l' ↔ e = (p', tag) ∨ (e ∈ l ∧ e.1 ≠ p'))

theorem add_spec : ∀ (fuel : Nat) (l : RList) (p : Int) (no : Bool) (tag : Nat) (l' : RList),
    Desc l → add fuel l p no tag = some l' → AddSpec l l' p no tag := by
  intro fuel
  induction fuel with
  | zero => intro l p no tag l' _ h; simp [add] at h
  | succ fuel ih =>
    intro l p no tag l' hd h
    unfold add at h
    split at h
    · rename_i pos hf
      obtain ⟨A, B, t, hl, hlen, hA, hB⟩ := find_found l hd p pos hf
      cases no with
      | true =>
        simp only [↓reduceIte] at h
        split at h
        · cases h
        · have r := ih l (p - 1) true tag l' hd h
          obtain ⟨p', h1, h2, h3⟩ := r.used
          obtain ⟨h2a, h2b, h2c⟩ := h2 rfl
          refine ⟨r.desc, p', fun h => Bool.noConfusion h, ?_, h3⟩
          intro _
          refine ⟨by omega, h2b, ?_⟩
          intro q hq1 hq2
          by_cases hqp : q = p
          · subst hqp; exact ⟨t, by rw [hl]; simp⟩
          · exact h2c q hq1 (by omega)
      | false =>
        simp only [Bool.false_eq_true, ↓reduceIte, Option.some.injEq] at h
        subst h
        have hsplit := take_drop_split A B (p, t)
        have hset : setAt l pos (p, tag) = A ++ (p, tag) :: B := by
          unfold setAt; rw [hl, ← hlen, hsplit.1, hsplit.2.1]
        rw [hset]
        refine ⟨desc_mid A B (p, tag) hA hB (desc_drop_mid A B (p, t) (hl ▸ hd)), p, fun _ => rfl,
          fun h => Bool.noConfusion h, ?_⟩
        intro e
        rw [hl]
        simp only [List.mem_append, List.mem_cons]
        constructor
        · rintro (h | rfl | h)
          · exact .inr ⟨.inl h, by have := hA e h; omega⟩
          · exact .inl rfl
          · exact .inr ⟨.inr (.inr h), by have := hB e h; omega⟩
        · rintro (rfl | ⟨h | rfl | h, hne⟩)
          · exact .inr (.inl rfl)
          · exact .inl h
          · exact absurd rfl hne
          · exact .inr (.inr h)
    · rename_i pos hf
      simp only [Option.some.injEq] at h
      subst h
      obtain ⟨A, B, hl, hlen, hA, hB⟩ := find_absent l hd p pos hf
      have hsplit := take_drop_split A B (p, tag)
      have hins : insertAt l pos (p, tag) = A ++ (p, tag) :: B := by
        unfold insertAt; rw [hl, ← hlen, hsplit.2.2.1, hsplit.2.2.2]
      rw [hins]
      have hnot : ∀ t, (p, t) ∉ l := by
        intro t hm; rw [hl] at hm
        rcases List.mem_append.1 hm with h | h
        · have := hA _ h; simp at this
        · have := hB _ h; simp at this
      refine ⟨desc_mid A B (p, tag) hA hB (hl ▸ hd), p, fun _ => rfl, fun _ => ⟨Int.le_refl _, hnot, ?_⟩, ?_⟩
      · intro q h1 h2; omega
      · intro e
        rw [hl]
        simp only [List.mem_append, List.mem_cons]
        constructor
        · rintro (h | rfl | h)
          · exact .inr ⟨.inl h, by have := hA e h; omega⟩
          · exact .inl rfl
          · exact .inr ⟨.inr h, by have := hB e h; omega⟩
        · rintro (rfl | ⟨h | h, _⟩)
          · exact .inr (.inl rfl)
          · exact .inl h
          · exact .inr (.inr h)

/-- **remove deletes exactly the entry with that priority** and nothing else; order is kept. -/
theorem remove_spec (l : RList) (hd : Desc l) (p : Int) :
    Desc (remove l p) ∧ ∀ e, e ∈ remove l p ↔ (e ∈ l ∧ e.1 ≠ p) := by
  unfold remove
  split
  · rename_i pos hf
    obtain ⟨A, B, t, hl, hlen, hA, hB⟩ := find_found l hd p pos hf
    have hsplit := take_drop_split A B (p, t)
    have hrem : removeAt l pos = A ++ B := by
      unfold removeAt; rw [hl, ← hlen, hsplit.1, hsplit.2.1]
    rw [hrem]
    refine ⟨desc_drop_mid A B (p, t) (hl ▸ hd), ?_⟩
    intro e; rw [hl]
    simp only [List.mem_append, List.mem_cons]
    constructor
    · rintro (h | h)
      · exact ⟨.inl h, by have := hA e h; omega⟩
      · exact ⟨.inr (.inr h), by have := hB e h; omega⟩
    · rintro ⟨h | rfl | h, hne⟩
      · exact .inl h
      · exact absurd rfl hne
      · exact .inr h
  · rename_i pos hf
    obtain ⟨A, B, hl, hlen, hA, hB⟩ := find_absent l hd p pos hf
    refine ⟨hd, ?_⟩
    intro e
    constructor
    · intro h; refine ⟨h, ?_⟩
      rw [hl] at h
      rcases List.mem_append.1 h with h | h
      · have := hA e h; omega
      · have := hB e h; omega
    · exact fun h => h.1

/-- the relation between a list and the reference map -/
def Rel (l : RList) (sp : Spec) : Prop := ∀ q t, sp q = some t ↔ (q, t) ∈ l

/-- `add` fails only with the documented panic: `no_override` and every priority from `p` down to
`i32::MIN` taken. (Fuel never runs out.) -/
theorem add_none : ∀ (fuel : Nat) (l : RList) (p : Int) (no : Bool) (tag : Nat),
    Desc l → Rust.I32_MIN ≤ p → (p - Rust.I32_MIN).toNat < fuel → add fuel l p no tag = none →
    no = true ∧ ∀ q, Rust.I32_MIN ≤ q → q ≤ p → ∃ t, (q, t) ∈ l := by
  intro fuel
  induction fuel with
  | zero => intro l p no tag _ _ h; omega
  | succ fuel ih =>
    intro l p no tag hd hmin hf h
    unfold add at h
    split at h
    · rename_i pos hfound
      obtain ⟨A, B, t, hl, -, -, -⟩ := find_found l hd p pos hfound
      cases no with
      | false => simp at h
      | true =>
        simp only [↓reduceIte] at h
        refine ⟨rfl, ?_⟩
        split at h
        · rename_i hlow
          intro q h1 h2
          have : q = p := by omega
          subst this; exact ⟨t, by rw [hl]; simp⟩
        · rename_i hlow
          have r := ih l (p - 1) true tag hd (by omega) (by omega) h
          intro q h1 h2
          by_cases hq : q = p
          · subst hq; exact ⟨t, by rw [hl]; simp⟩
          · exact r.2 q h1 (by omega)
    · simp at h

/-- the priority used by a successful `no_override` add is an `i32` -/
theorem add_used_min : ∀ (fuel : Nat) (l : RList) (p : Int) (tag : Nat) (l' : RList),
    Desc l → Rust.I32_MIN ≤ p → add fuel l p true tag = some l' →
    ∃ p', Rust.I32_MIN ≤ p' ∧ p' ≤ p ∧ (p', tag) ∈ l' ∧ (∀ t, (p', t) ∉ l) := by
  intro fuel
  induction fuel with
  | zero => intro l p tag l' _ _ h; simp [add] at h
  | succ fuel ih =>
    intro l p tag l' hd hmin h
    have hspec := add_spec (fuel + 1) l p true tag l' hd h
    unfold add at h
    split at h
    · simp only [↓reduceIte] at h
      split at h
      · cases h
      · obtain ⟨p', a, b, c, d⟩ := ih l (p - 1) tag l' hd (by omega) h
        exact ⟨p', a, by omega, c, d⟩
    · obtain ⟨p', -, h2, h3⟩ := hspec.used
      obtain ⟨h2a, h2b, h2c⟩ := h2 rfl
      rename_i pos hf
      obtain ⟨A, B, hl, hlen, hA, hB⟩ := find_absent l hd p pos hf
      refine ⟨p, hmin, Int.le_refl _, ?_, ?_⟩
      · simp only [Option.some.injEq] at h; subst h
        unfold insertAt; simp
      · intro t hm; rw [hl] at hm
        rcases List.mem_append.1 hm with h | h
        · have := hA _ h; simp at this
        · have := hB _ h; simp at this

theorem rel_update (l l' : RList) (sp : Spec) (p : Int) (tag : Nat) (hr : Rel l sp) (hd' : Desc l')
    (hm : ∀ e, e ∈ l' ↔ e = (p, tag) ∨ (e ∈ l ∧ e.1 ≠ p)) : Rel l' (sp.update p tag) := by
  intro q t
  unfold Spec.update
  rw [hm]
  by_cases hq : q = p
  · subst hq; simp
    constructor
    · intro h; exact h.symm
    · intro h; exact h.symm
  · simp only [hq, ↓reduceIte, Prod.mk.injEq, false_and, false_or, ne_eq, not_false_eq_true, and_true]
    exact hr q t

/-- **one registry edit refines the reference** (and keeps the list strictly descending) -/
theorem step_refines (l l' : RList) (sp : Spec) (op : Op) (hr : Rel l sp) (hd : Desc l)
    (h : step l op = some l') : ∃ sp', SpecStep sp op sp' ∧ Rel l' sp' ∧ Desc l' := by
  cases op with
  | remove p =>
    simp only [step, Option.some.injEq] at h; subst h
    obtain ⟨hd', hm⟩ := remove_spec l hd p
    refine ⟨sp.erase p, .remove p, ?_, hd'⟩
    intro q t
    unfold Spec.erase
    rw [hm]
    by_cases hq : q = p
    · subst hq; simp
    · simp only [hq, ↓reduceIte, ne_eq, not_false_eq_true, and_true]; exact hr q t
  | add p no tag =>
    simp only [step] at h
    have hs := add_spec FUEL l p no tag l' hd h
    obtain ⟨p', h1, h2, h3⟩ := hs.used
    cases no with
    | false =>
      have := h1 rfl; subst this
      exact ⟨sp.update p' tag, .addOverride p' tag, rel_update l l' sp p' tag hr hs.desc h3, hs.desc⟩
    | true =>
      obtain ⟨h2a, h2b, h2c⟩ := h2 rfl
      refine ⟨sp.update p' tag, .addNoOverride p p' tag ⟨h2a, ?_, ?_⟩, rel_update l l' sp p' tag hr hs.desc h3, hs.desc⟩
      · cases hsp : sp p' with
        | none => rfl
        | some t => exact absurd ((hr p' t).1 hsp) (h2b t)
      · intro q hq1 hq2
        obtain ⟨t, ht⟩ := h2c q hq1 hq2
        rw [(hr q t).2 ht]; simp

/-- **registry refines spec**: for every sequence of add/remove (any priorities, any `no_override` flags)
that does not hit the documented panic, the final list is strictly descending — highest priority first —
and holds exactly what the reference map holds. -/
theorem registry_refines_spec (ops : List Op) :
    ∀ (l l' : RList) (sp : Spec), Rel l sp → Desc l → run l ops = some l' →
      ∃ sp', SpecRun sp ops sp' ∧ Rel l' sp' ∧ Desc l' := by
  induction ops with
  | nil =>
    intro l l' sp hr hd h
    simp only [run, Option.some.injEq] at h; subst h
    exact ⟨sp, .nil sp, hr, hd⟩
  | cons op ops ih =>
    intro l l' sp hr hd h
    simp only [run] at h
    split at h
    · rename_i l1 hstep
      obtain ⟨sp1, hs1, hr1, hd1⟩ := step_refines l l1 sp op hr hd hstep
      obtain ⟨sp', hs', hr', hd'⟩ := ih l1 l' sp1 hr1 hd1 h
      exact ⟨sp', .cons hs1 hs', hr', hd'⟩
    · cases h

theorem empty_rel : Rel [] (fun _ => none) ∧ Desc [] := ⟨by intro q t; simp, List.Pairwise.nil⟩

/-- the reference is deterministic: the first free priority is unique -/
theorem firstFree_unique (sp : Spec) (p a b : Int) (ha : IsFirstFree sp p a) (hb : IsFirstFree sp p b) : a = b := by
  obtain ⟨a1, a2, a3⟩ := ha
  obtain ⟨b1, b2, b3⟩ := hb
  by_cases h : a < b
  · exact absurd b2 (a3 b h b1)
  · by_cases h' : b < a
    · exact absurd a2 (b3 a h' a1)
    · omega

/-- a strictly descending list is determined by its members: the reference map fixes the list, and so the
execution order (list order = descending priority). -/
theorem desc_unique : ∀ (l l' : RList), Desc l → Desc l' → (∀ e, e ∈ l ↔ e ∈ l') → l = l' := by
  intro l
  induction l with
  | nil =>
    intro l' _ _ h
    cases l' with
    | nil => rfl
    | cons x xs => exact absurd ((h x).2 (by simp)) (by simp)
  | cons x xs ih =>
    intro l' hd hd' h
    cases l' with
    | nil => exact absurd ((h x).1 (by simp)) (by simp)
    | cons y ys =>
      have hx := List.pairwise_cons.1 hd
      have hy := List.pairwise_cons.1 hd'
      have hxy : x = y := by
        have h1 := (h x).1 (by simp)
        have h2 := (h y).2 (by simp)
        simp only [List.mem_cons] at h1 h2
        rcases h1 with h1 | h1
        · exact h1
        · rcases h2 with h2 | h2
          · exact h2.symm
          · have := hx.1 y h2; have := hy.1 x h1; omega
      subst hxy
      congr 1
      apply ih ys hx.2 hy.2
      intro e
      constructor
      · intro he
        have := (h e).1 (by simp [he])
        simp only [List.mem_cons] at this
        rcases this with rfl | this
        · have := hx.1 e he; omega
        · exact this
      · intro he
        have := (h e).2 (by simp [he])
        simp only [List.mem_cons] at this
        rcases this with rfl | this
        · have := hy.1 e he; omega
        · exact this

/-! concrete witnesses (tests). The second one is the pinned defect F6: with the un-reversed comparator
`remove` did not find 5 in `[9,7,5,3,1]`. -/
example : run [] [.add 5 false 1, .add 9 false 2, .add 5 true 3, .add 5 false 4, .remove 9] =
    some [(5, 4), (4, 3)] := by decide +kernel
example : remove [(9,0),(7,0),(5,0),(3,0),(1,0)] 5 = [(9,0),(7,0),(3,0),(1,0)] := by decide +kernel
example : search (fun i => compare (prioAt [(9,0),(7,0),(5,0),(3,0),(1,0)] i) 5) 5 = (5, false) := by decide +kernel

end Registry

namespace Registry
/-- **prepare choice**: a path-bound Prepare wins; otherwise the first predicate that holds, and only it. -/
theorem prepare_choice_single (s : Nat) (fns : List (Entry × Bool)) : prepareChoice (some s) fns = some s := by
  cases fns with
  | nil => rfl
  | cons x xs => obtain ⟨e, p⟩ := x; rfl

theorem prepare_choice_first (fns : List (Entry × Bool)) (t : Nat) (h : prepareChoice none fns = some t) :
    ∃ pre e post, fns = pre ++ (e, true) :: post ∧ e.2 = t ∧ ∀ x ∈ pre, x.2 = false := by
  induction fns with
  | nil => simp [prepareChoice] at h
  | cons x xs ih =>
    obtain ⟨e, p⟩ := x
    cases p with
    | true =>
      simp only [prepareChoice, ↓reduceIte, Option.some.injEq] at h
      exact ⟨[], e, xs, rfl, h, by simp⟩
    | false =>
      simp only [prepareChoice, Bool.false_eq_true, ↓reduceIte] at h
      obtain ⟨pre, e', post, h1, h2, h3⟩ := ih h
      refine ⟨(e, false) :: pre, e', post, by rw [h1]; rfl, h2, ?_⟩
      intro y hy
      simp only [List.mem_cons] at hy
      rcases hy with rfl | hy
      · rfl
      · exact h3 y hy

theorem prepare_choice_none (fns : List (Entry × Bool)) (h : prepareChoice none fns = none) :
    ∀ x ∈ fns, x.2 = false := by
  induction fns with
  | nil => simp
  | cons x xs ih =>
    obtain ⟨e, p⟩ := x
    cases p with
    | true => simp [prepareChoice] at h
    | false =>
      simp only [prepareChoice, Bool.false_eq_true, ↓reduceIte] at h
      intro y hy
      simp only [List.mem_cons] at hy
      rcases hy with rfl | hy
      · rfl
      · exact ih h y hy

/-- **priority order at request time**: the extensions of a list run once each, highest priority first. -/
theorem run_order (l : RList) (hd : Desc l) :
    (runAll l).length = l.length ∧ l.Pairwise (fun a b => a.1 > b.1) := ⟨by simp [runAll], hd⟩

/-- **predicate-bound Present extensions**: exactly the accepting ones run, each once, in list order (highest priority
first when the list is in registry order) — not only the first, unlike Prepare -/
theorem presentFns_spec (l : List (Entry × Bool)) :
    (∀ t, t ∈ presentFns l ↔ ∃ e, (e, true) ∈ l ∧ e.2 = t) ∧
    List.Sublist (presentFns l) (l.map (·.1.2)) ∧
    (presentFns l).length = (l.filter (·.2)).length := by
  refine ⟨?_, ?_, by simp [presentFns]⟩
  · intro t
    simp only [presentFns, List.mem_map, List.mem_filter]
    constructor
    · rintro ⟨⟨e, b⟩, ⟨hm, hb⟩, rfl⟩
      simp only at hb
      subst hb
      exact ⟨e, hm, rfl⟩
    · rintro ⟨e, hm, rfl⟩
      exact ⟨(e, true), ⟨hm, rfl⟩, rfl⟩
  · unfold presentFns
    have : l.map (·.1.2) = (l.map id).map (·.1.2) := by simp
    exact List.Sublist.map _ List.filter_sublist
end Registry
