//! C20 — the same request over HTTP/1.1 and HTTP/2 (TLS, ALPN), and multiplexed streams.
use crate::common::*;
use kvarn::prelude::*;

fn extensions() -> Extensions {
    let mut ext = Extensions::new();
    let body: &'static [u8] = b"hello hello hello hello hello hello hello hello hello hello hello hello hello hello hello hello end!";
    ext.add_prepare_single("/hello", prepare!(_r, _h, _p, _a, move |body: &'static [u8]| {
        let mut r = Response::new(Bytes::from_static(body));
        r.headers_mut().insert("content-type", HeaderValue::from_static("text/plain"));
        r.headers_mut().insert("x-handler", HeaderValue::from_static("yes"));
        FatResponse::cache(r)
    }));
    ext.add_prepare_single("/uncached", prepare!(_r, _h, _p, _a, move |body: &'static [u8]| {
        let mut r = Response::new(Bytes::from_static(body));
        r.headers_mut().insert("content-type", HeaderValue::from_static("text/html"));
        FatResponse::no_cache(r)
    }));
    ext.add_prepare_single("/empty", prepare!(_r, _h, _p, _a, { FatResponse::cache(Response::new(Bytes::new())) }));
    ext.add_prepare_single("/png", prepare!(_r, _h, _p, _a, move |body: &'static [u8]| {
        let mut r = Response::new(Bytes::from_static(body));
        r.headers_mut().insert("content-type", HeaderValue::from_static("image/png"));
        FatResponse::cache(r)
    }));
    ext.add_prepare_single("/echo", prepare!(req, _h, _p, _a, {
        let b = req.body_mut().read_to_bytes(1000).await.unwrap_or_default();
        let mut out = format!("len={};", b.len()).into_bytes();
        out.extend_from_slice(&b);
        FatResponse::no_cache(Response::new(Bytes::from(out)))
    }));
    // a handler that reads at most 20 000 bytes of the request body: bodies far above that arrive in many HTTP/2 DATA
    // frames (<= 16 KiB each) / TCP segments, none of them as large as the limit
    ext.add_prepare_single("/echo20k", prepare!(req, _h, _p, _a, {
        let b = req.body_mut().read_to_bytes(20_000).await.unwrap_or_default();
        let sum = b.iter().fold(7u64, |acc, x| (acc * 31 + *x as u64) % 1_000_000_007);
        FatResponse::no_cache(Response::new(Bytes::from(format!("len={};sum={sum};first={:?};last={:?}", b.len(), b.first(), b.last()))))
    }));
    ext.add_prepare_single("/s", prepare!(req, _h, _p, _a, {
        // stream marker: /s?id=K answers "stream K" after a delay derived from K
        let id: u64 = req.uri().query().and_then(|q| q.strip_prefix("id=")).and_then(|v| v.split('&').next()).and_then(|v| v.parse().ok()).unwrap_or(0);
        let delay: u64 = req.uri().query().and_then(|q| q.split("d=").nth(1)).and_then(|v| v.parse().ok()).unwrap_or(0);
        tokio::time::sleep(std::time::Duration::from_millis(delay)).await;
        FatResponse::new(Response::new(Bytes::from(format!("stream {id} ........................................................"))), comprash::ServerCachePreference::QueryMatters)
    }));
    ext
}

/// kvarn_testing picks a random port and panics if it is taken: try again a few times
fn start_testing_server(rt: &tokio::runtime::Runtime) -> kvarn_testing::Server {
    for _ in 0..6 {
        if let Ok(s) = std::panic::catch_unwind(std::panic::AssertUnwindSafe(|| rt.block_on(kvarn_testing::ServerBuilder::new(extensions(), host::Options::default()).run()))) {
            return s;
        }
        std::thread::sleep(std::time::Duration::from_millis(100));
    }
    rt.block_on(kvarn_testing::ServerBuilder::new(extensions(), host::Options::default()).run())
}

/// (method, path, headers, body)
fn kind(k: &str) -> (&'static str, &'static str, Vec<(&'static str, &'static str)>, Option<Vec<u8>>) {
    match k {
        "get" => ("GET", "/hello", vec![], None),
        "head" => ("HEAD", "/hello", vec![], None),
        "getgz" => ("GET", "/hello", vec![("accept-encoding", "gzip")], None),
        "getbr" => ("GET", "/hello", vec![("accept-encoding", "br, zstd;q=0.5")], None),
        "headgz" => ("HEAD", "/hello", vec![("accept-encoding", "gzip")], None),
        "uncached" => ("GET", "/uncached", vec![("accept-encoding", "zstd")], None),
        "empty" => ("GET", "/empty", vec![], None),
        "missing" => ("GET", "/missing", vec![], None),
        "headmissing" => ("HEAD", "/missing", vec![], None),
        "range" => ("GET", "/hello", vec![("range", "bytes=2-5")], None),
        "range416" => ("GET", "/hello", vec![("range", "bytes=5000-6000")], None),
        "unsafe" => ("GET", "/%2e%2e/x", vec![], None),
        "png406" => ("GET", "/png", vec![("accept-encoding", "gzip, identity;q=0")], None),
        "cors" => ("GET", "/hello", vec![("origin", "http://evil.test")], None),
        "options" => ("OPTIONS", "/hello", vec![], None),
        "post" => ("POST", "/echo", vec![], Some(b"request body of some length".to_vec())),
        "postbig" => ("POST", "/echo", vec![], Some(gen_bytes(3000, 5))),
        "put" => ("PUT", "/echo", vec![], Some(b"x".to_vec())),
        "post20k" => ("POST", "/echo20k", vec![], Some(gen_bytes(20_000, 9))),
        "post20k1" => ("POST", "/echo20k", vec![], Some(gen_bytes(20_001, 9))),
        "post50k" => ("POST", "/echo20k", vec![], Some(gen_bytes(50_000, 11))),
        "post200k" => ("POST", "/echo20k", vec![], Some(gen_bytes(200_000, 13))),
        _ => unreachable!("{k}"),
    }
}
const KINDS: [&str; 22] = ["post20k", "post20k1", "post50k", "post200k", "get", "head", "getgz", "getbr", "headgz", "uncached", "empty", "missing", "headmissing", "range", "range416", "unsafe", "png406", "cors", "options", "post", "postbig", "put"];

pub struct Pair {
    rt: tokio::runtime::Runtime,
    server: kvarn_testing::Server,
    h1: reqwest::Client,
    h2: reqwest::Client,
}
impl Pair {
    pub fn new() -> Self {
        let rt = tokio::runtime::Builder::new_multi_thread().worker_threads(4).enable_all().build().unwrap();
        let server = start_testing_server(&rt);
        // the HTTP/1.1 client reuses its connection: after a request whose body the handler did not read completely the
        // server reads and discards the rest (F30), so the next request on the same connection is answered
        let h1 = server.client().http1_only().build().unwrap();
        let h2 = server.client().http2_prior_knowledge().build().unwrap();
        Pair { rt, server, h1, h2 }
    }
    fn fetch(&self, client: &reqwest::Client, k: &str) -> Result<(String, u16, Vec<(String, Vec<u8>)>, Vec<u8>), String> {
        let (m, path, headers, body) = kind(k);
        let mut rb = client.request(reqwest::Method::from_bytes(m.as_bytes()).unwrap(), self.server.url(path));
        for (n, v) in headers { rb = rb.header(n, v); }
        if let Some(b) = body { rb = rb.body(b); }
        self.rt.block_on(async move {
            let r = rb.send().await.map_err(|e| format!("{e:?}"))?;
            let ver = format!("{:?}", r.version());
            let st = r.status().as_u16();
            let hs: Vec<(String, Vec<u8>)> = r.headers().iter().map(|(n, v)| (n.as_str().to_owned(), v.as_bytes().to_vec())).collect();
            let b = r.bytes().await.map_err(|e| format!("{e:?}"))?.to_vec();
            Ok((ver, st, hs, b))
        })
    }
}
impl Group for Pair {
    fn name(&self) -> &'static str {
        "c20.pair"
    }
    fn rule(&self) -> &'static str {
        "a TLS server built like kvarn_testing::ServerBuilder; reqwest clients pinned to http1_only and to HTTP/2 (ALPN h2); sequences of 1-8 requests over 18 kinds (cached/uncached, HEAD, gzip/br/zstd, ranges 206/416, 404, 400, 406, CORS 403, OPTIONS, POST/PUT bodies up to 3000 bytes echoed by the handler, bodies of 20 000 / 20 001 / 50 000 / 200 000 bytes to a handler that reads at most 20 000 — many DATA frames / segments, none as large as the limit) sent through both; status, end-to-end headers (normalised by the model's `normalise`: drops connection, keep-alive, content-length, alt-svc) and body bytes compared pairwise; oracle: equality, and the protocol version each client reports; non-trivial = the sequence has a non-GET or an error or a compressed response"
    }
    fn parallel(&self) -> bool {
        false
    }
    fn generate(&self, ctx: &Ctx, rng: &mut Rng) -> Vec<String> {
        let n = if ctx.mode == Mode::Quick { 30 } else { 600 };
        let mut v = vec![format!("c20.pair {}", list(KINDS.iter().map(|s| (*s).to_owned())))];
        for _ in 0..n {
            v.push(format!("c20.pair {}", list((0..rng.range(1, 8)).map(|_| (*rng.pick(&KINDS)).to_owned()))));
        }
        v
    }
    fn driver_line(&self, _l: &str) -> String {
        "c20.norm 200 [] -".into()
    }
    fn canon(&self, out: &str) -> String {
        if out == "ok" || out == "200 [] -" { "match".into() } else { out.to_owned() }
    }
    fn run_impl(&self, ctx: &Ctx, line: &str) -> String {
        let mut problems = Vec::new();
        let mut lines = Vec::new();
        for k in parse_list(line.split(' ').nth(1).unwrap()).unwrap() {
            let a = self.fetch(&self.h1, &k);
            let b = self.fetch(&self.h2, &k);
            match (a, b) {
                (Ok(a), Ok(b)) => {
                    if a.0 != "HTTP/1.1" || b.0 != "HTTP/2.0" { problems.push(format!("{k}: protocols {} / {}", a.0, b.0)); }
                    if a.3 != b.3 { problems.push(format!("{k}: bodies differ ({} vs {} bytes: {:?} vs {:?})", a.3.len(), b.3.len(), String::from_utf8_lossy(&a.3[..a.3.len().min(80)]), String::from_utf8_lossy(&b.3[..b.3.len().min(80)]))); }
                    if let Some(n) = k.strip_prefix("post").and_then(|x| match x { "20k" => Some(20_000usize), "20k1" => Some(20_001), "50k" => Some(50_000), "200k" => Some(200_000), _ => None }) {
                        // exactly the first min(n, 20000) bytes of the body (Mux.h2_body_is_prefix / Http1.body_exact)
                        let sent = kind(&k).3.unwrap();
                        let prefix = &sent[..n.min(20_000)];
                        let sum = prefix.iter().fold(7u64, |acc, x| (acc * 31 + *x as u64) % 1_000_000_007);
                        let want = format!("len={};sum={sum};", prefix.len());
                        for (which, r) in [("HTTP/1.1", &a), ("HTTP/2", &b)] {
                            if !r.3.starts_with(want.as_bytes()) { problems.push(format!("{k} over {which}: the handler asked for at most 20000 bytes of a {n}-byte body and saw {:?}", String::from_utf8_lossy(&r.3[..r.3.len().min(40)]))); }
                        }
                    }
                    for r in [&a, &b] {
                        // dates and nonces are per response: masked
                        let hs = list(r.2.iter().filter(|(n, _)| n != "last-modified" && n != "date").map(|(n, v)| format!("{}={}", hex(n.as_bytes()), hex(v))));
                        lines.push(format!("c20.norm {} {hs} {}", r.1, digest(&r.3).replace(' ', "_")));
                    }
                }
                (a, b) => problems.push(format!("{k}: h1 {:?} h2 {:?}", a.err(), b.err())),
            }
        }
        let outs = run_driver(&ctx.driver, &lines).unwrap_or_default();
        for (i, pair) in outs.chunks(2).enumerate() {
            if pair.len() == 2 && pair[0] != pair[1] { problems.push(format!("response {i}: HTTP/1.1 `{}` vs HTTP/2 `{}`", pair[0], pair[1])); }
        }
        if problems.is_empty() { "ok".into() } else { format!("differs {}", problems.join(" || ")) }
    }
    fn oracle(&self, _ctx: &Ctx, line: &str, out: &str) -> Option<(String, String)> {
        if out == "ok" { None } else { Some((format!("pair:{line}"), out.to_owned())) }
    }
    fn nontrivial(&self, line: &str, _o: &str) -> bool {
        ["head", "post", "put", "range", "missing", "406", "gz", "br", "unsafe", "cors"].iter().any(|k| line.contains(k))
    }
    fn classify(&self, _l: &str, o: &str) -> String {
        o.split(' ').next().unwrap_or("").to_owned()
    }
}

/// many streams on one HTTP/2 connection, handlers finishing in varied orders
pub struct MuxStreams {
    rt: tokio::runtime::Runtime,
    server: kvarn_testing::Server,
}
impl MuxStreams {
    pub fn new() -> Self {
        let rt = tokio::runtime::Builder::new_multi_thread().worker_threads(4).enable_all().build().unwrap();
        let server = start_testing_server(&rt);
        MuxStreams { rt, server }
    }
}
impl Group for MuxStreams {
    fn name(&self) -> &'static str {
        "c20.mux"
    }
    fn rule(&self) -> &'static str {
        "2-32 concurrent streams on ONE HTTP/2 connection (a fresh reqwest client per case, prior-knowledge h2) to /s?id=K&d=<delay> whose handler sleeps d ms (delays drawn from the seed so that completion orders vary, including reversed and equal delays, repeated ids hitting the cache) and answers `stream K`; oracle only (the model-level counterpart is `Mux.streams_get_own_response`): every stream receives exactly its own marker; non-trivial = at least 3 distinct delays"
    }
    fn parallel(&self) -> bool {
        false
    }
    fn compare_with_model(&self, _l: &str) -> bool {
        false
    }
    fn generate(&self, ctx: &Ctx, rng: &mut Rng) -> Vec<String> {
        let n = if ctx.mode == Mode::Quick { 10 } else { 200 };
        (0..n)
            .map(|i| {
                let k = rng.range(2, 32);
                let streams = list((0..k).map(|j| {
                    let id = if rng.chance(1, 6) { rng.below(3) } else { j + 10 };
                    let d = match i % 4 { 0 => (k - j) * 3, 1 => 0, 2 => rng.below(40), _ => (j % 3) * 15 };
                    format!("{id}@{d}")
                }));
                format!("c20.mux {streams}")
            })
            .collect()
    }
    fn run_impl(&self, _ctx: &Ctx, line: &str) -> String {
        let client = self.server.client().http2_prior_knowledge().build().unwrap();
        let streams = parse_list(line.split(' ').nth(1).unwrap()).unwrap();
        let mut bad = Vec::new();
        let results = self.rt.block_on(async {
            let mut hs = Vec::new();
            for s in &streams {
                let (id, d) = s.split_once('@').unwrap();
                let url = self.server.url(format!("/s?id={id}&d={d}"));
                let c = client.clone();
                let id = id.to_owned();
                hs.push(tokio::spawn(async move {
                    let r = c.get(url).send().await.map_err(|e| format!("{e:?}"))?;
                    let ver = format!("{:?}", r.version());
                    let b = r.text().await.map_err(|e| format!("{e:?}"))?;
                    Ok::<_, String>((id, ver, b))
                }));
            }
            let mut out = Vec::new();
            for h in hs { out.push(h.await.unwrap()); }
            out
        });
        for r in results {
            match r {
                Ok((id, ver, body)) => {
                    if ver != "HTTP/2.0" { bad.push(format!("stream {id}: {ver}")); }
                    if !body.starts_with(&format!("stream {id} ")) { bad.push(format!("stream {id} received `{}`", &body[..body.len().min(20)])); }
                }
                Err(e) => bad.push(e),
            }
        }
        if bad.is_empty() { "ok".into() } else { format!("crossed {}", bad.join(" || ")) }
    }
    fn oracle(&self, _ctx: &Ctx, line: &str, out: &str) -> Option<(String, String)> {
        if out == "ok" { None } else { Some((format!("mux:{line}"), out.to_owned())) }
    }
    fn nontrivial(&self, line: &str, _o: &str) -> bool {
        let ds: std::collections::HashSet<&str> = line.split(['[', ',', ']']).filter_map(|s| s.split_once('@').map(|x| x.1)).collect();
        ds.len() >= 3
    }
}
