import KvarnModel.UrlCrawl
/-! C02, the link scanner (`url-crawl`): no document panics it — every slice it takes is inside the data. -/
namespace UrlCrawl
open Rust

theorem position_lt [BEq α] (x : α) : ∀ (l : List α) (i : Nat), position x l = some i → i < l.length := by
  intro l
  induction l with
  | nil => intro i h; simp [position] at h
  | cons a l ih =>
    intro i h
    simp only [position] at h
    split at h
    · cases h; simp
    · cases hp : position x l with
      | none => rw [hp] at h; simp at h
      | some j =>
        rw [hp] at h; simp only [Option.map_some, Option.some.injEq] at h
        have := ih j hp
        simp only [List.length_cons]; omega

theorem memrchr_lt (x : UInt8) (l : Bytes) (i : Nat) (h : memrchr x l = some i) : i < l.length := by
  unfold memrchr at h
  cases hp : position x l.reverse with
  | none => rw [hp] at h; simp at h
  | some j =>
    rw [hp] at h; simp only [Option.map_some, Option.some.injEq] at h
    have := position_lt x l.reverse j hp
    simp only [List.length_reverse] at this
    omega

/-- the filter's slices are inside the data whenever `pos` is the index of a byte -/
theorem resourceFilter_no_panic (data : Bytes) (pos : Nat) (h : pos < data.length) : ∀ w, resourceFilter data pos ≠ .panic w := by
  intro w
  unfold resourceFilter
  simp only
  split
  · simp
  · rw [if_neg (by omega)]
    have hts : (memrchr LT (data.take pos)).getD 0 ≤ pos := by
      cases hm : memrchr LT (data.take pos) with
      | none => simp
      | some i =>
        have := memrchr_lt LT _ i hm
        simp only [List.length_take] at this
        simp only [Option.getD_some]; omega
    rw [if_neg (by omega)]
    cases hp : position GT (data.drop ((memrchr LT (data.take pos)).getD 0)) with
    | none => simp
    | some tl =>
      have := position_lt GT _ tl hp
      simp only [List.length_drop] at this
      simp only
      rw [if_neg (by omega)]
      simp

theorem quoteIllegal_le (final : UInt8) : ∀ (l : Bytes) (ls : Bool) (e n : Nat), quoteIllegal final l ls e = some n →
    n ≤ e + l.length := by
  intro l
  induction l with
  | nil => intro ls e n h; simp [quoteIllegal] at h; omega
  | cons b rest ih =>
    intro ls e n h
    unfold quoteIllegal at h
    split at h
    · simp only [Option.some.injEq] at h; omega
    · split at h
      · cases h
      · split at h
        · cases h
        · have := ih _ _ _ h
          simp only [List.length_cons]; omega

/-- `next_quote`, scanning the suffix `rem` of `data` that starts at index `pos` -/
theorem nextQuote_no_panic (data : Bytes) : ∀ (rem : Bytes) (pos : Nat) (st : St), data.length = pos + rem.length →
    ∀ w, nextQuote data rem pos st ≠ .panic w := by
  intro rem
  induction rem with
  | nil => intro pos st _ w; simp [nextQuote]
  | cons b rest ih =>
    intro pos st hlen w
    simp only [List.length_cons] at hlen
    have hnext : ∀ st', nextQuote data rest (pos + 1) st' ≠ .panic w := fun st' => ih (pos + 1) st' (by omega) w
    unfold nextQuote
    split
    · exact hnext _
    · split
      · exact hnext _
      · split
        · exact hnext _
        · split
          · exact hnext _
          · simp only
            split
            · cases hf : resourceFilter data pos with
              | panic w' => exact absurd hf (resourceFilter_no_panic data pos (by omega) w')
              | err e => simp
              | ok r =>
                cases r with
                | false => simp only; exact hnext _
                | true =>
                  simp only
                  rw [if_neg (by omega)]
                  cases hq : quoteIllegal b (data.drop (pos + 1)) false 0 with
                  | none => simp only; exact hnext _
                  | some ending =>
                    simp only
                    split
                    · have := quoteIllegal_le b _ _ _ _ hq
                      rw [if_neg (by omega)]
                      simp
                    · exact hnext _
            · exact hnext _

/-- **no document panics the link scanner** (with the repaired step over the closing quote) -/
theorem collect_no_panic : ∀ (fuel : Nat) (data : Bytes) (st : St) (acc : List Bytes) (w : String),
    collect true fuel data st acc ≠ .panic w := by
  intro fuel
  induction fuel with
  | zero => intro data st acc w; simp [collect]
  | succ fuel ih =>
    intro data st acc w
    unfold collect
    split
    · simp
    · cases hn : nextQuote data data 0 st with
      | panic w' => exact absurd hn (nextQuote_no_panic data data 0 st (by simp) w')
      | err e => simp
      | ok r =>
        obtain ⟨o, st'⟩ := r
        cases o with
        | none => simp
        | some pa =>
          obtain ⟨path, advance⟩ := pa
          simp only [↓reduceIte]
          rw [if_neg (by omega)]
          exact ih _ _ _ w

theorem getUrls_no_panic (html : Bytes) : ∀ w, getUrls html ≠ .panic w :=
  collect_no_panic _ html {} []

/-! the pinned defect (test of the model's sensitivity): a document that ends inside a quoted attribute value,
`<img src="abcd` -/
example : (match getUrls [60, 105, 109, 103, 32, 115, 114, 99, 61, 34, 97, 98, 99, 100] false with
    | .panic _ => true | _ => false) = true := by decide +kernel
example : getUrls [60, 105, 109, 103, 32, 115, 114, 99, 61, 34, 97, 98, 99, 100] = .ok [[97, 98, 99, 100]] := by decide +kernel

end UrlCrawl
