//! C08 — response framing on one keep-alive HTTP/1.1 connection.
use crate::common::*;
use crate::server::*;
use kvarn::prelude::*;

/// request kinds: (name, raw request without the final blank line, expected statuses, is HEAD, closes)
fn kind(k: &str) -> (String, Vec<u16>, bool) {
    let h = "host: localhost\r\n";
    match k {
        "get" => (format!("GET /hello HTTP/1.1\r\n{h}"), vec![200], false),
        "piped" => (format!("GET /piped HTTP/1.1\r\n{h}"), vec![200], false),
        "pipedhead" => (format!("HEAD /piped HTTP/1.1\r\n{h}"), vec![200], true),
        "pipedrange" => (format!("GET /piped HTTP/1.1\r\n{h}range: bytes=2-5\r\n"), vec![200], false),
        "stream" => (format!("GET /stream.txt HTTP/1.1\r\n{h}"), vec![200], false),
        "streamhead" => (format!("HEAD /stream.txt HTTP/1.1\r\n{h}"), vec![200], true),
        "streamrange" => (format!("GET /stream.txt HTTP/1.1\r\n{h}range: bytes=10-19\r\n"), vec![206], false),
        "streambeyond" => (format!("GET /stream.txt HTTP/1.1\r\n{h}range: bytes=50-1000\r\n"), vec![206], false),
        "streampast" => (format!("GET /stream.txt HTTP/1.1\r\n{h}range: bytes=200-300\r\n"), vec![416], false),
        "head" => (format!("HEAD /hello HTTP/1.1\r\n{h}"), vec![200], true),
        "getgz" => (format!("GET /hello HTTP/1.1\r\n{h}accept-encoding: gzip\r\n"), vec![200], false),
        "headgz" => (format!("HEAD /hello HTTP/1.1\r\n{h}accept-encoding: gzip\r\n"), vec![200], true),
        "getbr" => (format!("GET /hello HTTP/1.1\r\n{h}accept-encoding: br, zstd;q=0.5\r\n"), vec![200], false),
        "uncached" => (format!("GET /uncached HTTP/1.1\r\n{h}accept-encoding: zstd\r\n"), vec![200], false),
        "empty" => (format!("GET /empty HTTP/1.1\r\n{h}"), vec![200], false),
        "missing" => (format!("GET /missing HTTP/1.1\r\n{h}"), vec![404], false),
        "headmissing" => (format!("HEAD /missing HTTP/1.1\r\n{h}"), vec![404], true),
        "range" => (format!("GET /hello HTTP/1.1\r\n{h}range: bytes=2-5\r\n"), vec![206], false),
        "headrange" => (format!("HEAD /hello HTTP/1.1\r\n{h}range: bytes=2-5\r\n"), vec![206], true),
        "range416" => (format!("GET /hello HTTP/1.1\r\n{h}range: bytes=5000-6000\r\n"), vec![416], false),
        "ims" => (format!("GET /hello HTTP/1.1\r\n{h}if-modified-since: Sun, 06 Nov 2094 08:49:37 GMT\r\n"), vec![200, 304], false),
        "unsafe" => (format!("GET /a/../../x HTTP/1.1\r\n{h}"), vec![400], false),
        "headunsafe" => (format!("HEAD /%2e%2e/x HTTP/1.1\r\n{h}"), vec![400], true),
        "notacceptable" => (format!("GET /hello HTTP/1.1\r\n{h}accept-encoding: identity;q=0\r\n"), vec![406, 200], false),
        "png406" => (format!("GET /png HTTP/1.1\r\n{h}accept-encoding: gzip, identity;q=0\r\n"), vec![406], false),
        "post" => (format!("POST /hello HTTP/1.1\r\n{h}content-length: 0\r\n"), vec![200], false),
        "options" => (format!("OPTIONS /hello HTTP/1.1\r\n{h}"), vec![200], false),
        "cors" => (format!("GET /hello HTTP/1.1\r\n{h}origin: http://evil.test\r\n"), vec![403], false),
        "nocontent" => (format!("GET /nocontent HTTP/1.1\r\n{h}"), vec![204], false),
        "big" => (format!("GET /big HTTP/1.1\r\n{h}accept-encoding: gzip\r\n"), vec![200], false),
        // a large text-like body through each encoder, HEAD before or after the GET (the lengths must agree either way)
        "headbig" => (format!("HEAD /big HTTP/1.1\r\n{h}accept-encoding: gzip\r\n"), vec![200], true),
        "bigbr" => (format!("GET /big HTTP/1.1\r\n{h}accept-encoding: br\r\n"), vec![200], false),
        "headbigbr" => (format!("HEAD /big HTTP/1.1\r\n{h}accept-encoding: br\r\n"), vec![200], true),
        "bigzstd" => (format!("GET /big HTTP/1.1\r\n{h}accept-encoding: zstd\r\n"), vec![200], false),
        "headbigzstd" => (format!("HEAD /big HTTP/1.1\r\n{h}accept-encoding: zstd\r\n"), vec![200], true),
        // a POST whose 35-byte body looks like a request and arrives after the head; the handler never reads it
        // a body the handler reads to its end: with the head, after the head, and too long to come with the head
        "postall" => (format!("POST /readall HTTP/1.1\r\n{h}content-length: 40\r\n"), vec![200], false),
        "postalllate" => (format!("POST /readall HTTP/1.1\r\n{h}content-length: 40\r\n"), vec![200], false),
        "postalllong" => (format!("POST /readall HTTP/1.1\r\n{h}content-length: 3000\r\n"), vec![200], false),
        "postlate" => (format!("POST /hello HTTP/1.1\r\n{h}content-length: 35\r\n"), vec![200], false),
        // the same body in the same write as the head: it is in the server's buffer when the head is parsed
        "postwith" => (format!("POST /hello HTTP/1.1\r\n{h}content-length: 35\r\n"), vec![200], false),
        // the handler reads only the first 10 bytes of a 45-byte body; the other 35 look like a request
        "postpartial" => (format!("POST /read10 HTTP/1.1\r\n{h}content-length: 45\r\n"), vec![200], false),
        // a body far larger than what the handler reads (10 bytes of 300 000): the client is still writing when the response is ready
        "posthuge" => (format!("POST /read10 HTTP/1.1\r\n{h}content-length: 300000\r\n"), vec![200], false),
        _ => unreachable!("{k}"),
    }
}
const KINDS: [&str; 42] = ["postwith", "postall", "postalllate", "postalllong", "stream", "streamhead", "streamrange", "streambeyond", "streampast", "piped", "pipedhead", "pipedrange", "headbig", "bigbr", "headbigbr", "bigzstd", "headbigzstd", "postpartial", "posthuge", "postlate", "get", "head", "getgz", "headgz", "getbr", "uncached", "empty", "missing", "headmissing", "range", "headrange", "range416", "ims", "unsafe", "headunsafe", "notacceptable", "png406", "post", "options", "cors", "nocontent", "big"];

fn build(limited: bool) -> std::sync::Arc<HostCollection> {
    let mut ext = Extensions::new();
    let body: &'static [u8] = b"hello hello hello hello hello hello hello hello hello hello hello hello hello hello hello hello end!";
    ext.add_prepare_single("/hello", prepare!(_r, _h, _p, _a, move |body: &'static [u8]| {
        let mut r = Response::new(Bytes::from_static(body));
        r.headers_mut().insert("content-type", HeaderValue::from_static("text/plain"));
        FatResponse::cache(r)
    }));
    ext.add_prepare_single("/uncached", prepare!(_r, _h, _p, _a, move |body: &'static [u8]| {
        let mut r = Response::new(Bytes::from_static(body));
        r.headers_mut().insert("content-type", HeaderValue::from_static("text/html"));
        FatResponse::no_cache(r)
    }));
    ext.add_prepare_single("/empty", prepare!(_r, _h, _p, _a, { FatResponse::cache(Response::new(Bytes::new())) }));
    ext.add_prepare_single("/nocontent", prepare!(_r, _h, _p, _a, {
        let mut r = Response::new(Bytes::new());
        *r.status_mut() = StatusCode::NO_CONTENT;
        FatResponse::cache(r)
    }));
    ext.add_prepare_single("/png", prepare!(_r, _h, _p, _a, move |body: &'static [u8]| {
        let mut r = Response::new(Bytes::from_static(body));
        r.headers_mut().insert("content-type", HeaderValue::from_static("image/png"));
        FatResponse::cache(r)
    }));
    // a handler that reads the request body to its end
    ext.add_prepare_single("/readall", prepare!(req, _h, _p, _a, {
        let b = req.body_mut().read_to_bytes(1_000_000).await.unwrap_or_default();
        let sum = b.iter().fold(7u64, |acc, x| (acc * 31 + *x as u64) % 1_000_000_007);
        FatResponse::no_cache(Response::new(Bytes::from(format!("read all {} bytes of the body, sum {sum} ..........................", b.len()))))
    }));
    ext.add_prepare_single("/read10", prepare!(req, _h, _p, _a, {
        let b = req.body_mut().read_to_bytes(10).await.unwrap_or_default();
        FatResponse::no_cache(Response::new(Bytes::from(format!("read {} bytes of the body ......................................", b.len()))))
    }));
    ext.add_prepare_single("/big", prepare!(_r, _h, _p, _a, {
        // text-like: words drawn by a generator, so that the compression level changes the size of the result
        let words = ["the", "quick", "brown", "fox", "jumps", "over", "lazy", "dog", "kvarn", "server", "response", "header", "{", "}", "\"id\":", "true", "null", ",\n", "0.25", "content"];
        let noise = gen_noise(40_000, 9);
        let mut text = String::with_capacity(80_000);
        for (i, b) in noise.iter().enumerate() {
            if text.len() >= 70_000 { break; }
            text.push_str(words[(*b as usize + i / 97) % words.len()]);
            text.push(if b % 5 == 0 { '\n' } else { ' ' });
        }
        text.truncate(70_000);
        let mut r = Response::new(Bytes::from(text.into_bytes()));
        r.headers_mut().insert("content-type", HeaderValue::from_static("application/json"));
        FatResponse::cache(r)
    }));
    // a handler that sends part of its body from a future, with the whole length declared
    ext.add_prepare_single("/piped", prepare!(_r, _h, _p, _a, {
        let r = Response::new(Bytes::from_static(b"first part;"));
        FatResponse::no_cache(r).with_future_and_len(response_pipe_fut!(pipe, _host, {
            let _ = pipe.send(Bytes::from_static(b"second part, sent by the future")).await;
        }), 11 + 31)
    }));
    // the built-in streaming extension on a real file of 100 bytes
    let dir = std::env::temp_dir().join(format!("kvarn-verif-c08-{}", std::process::id()));
    std::fs::create_dir_all(dir.join("public")).unwrap();
    std::fs::write(dir.join("public/stream.txt"), (0..100u8).map(|i| b'a' + i % 26).collect::<Vec<u8>>()).unwrap();
    ext.add_prepare_single("/stream.txt", kvarn::extensions::stream_body());
    let mut host = Host::unsecure("localhost", dir.to_str().unwrap(), ext, host::Options::default());
    if limited {
        host.limiter = kvarn::limiting::Manager::new(4, 1, 1000.0);
    } else {
        host.limiter.disable();
    }
    HostCollection::builder().insert(host).build()
}

pub struct Framing;
impl Group for Framing {
    // a real server / real sockets with read timeouts: a failure counts if it shows again when the same case is re-run
    fn timing_sensitive(&self) -> bool {
        true
    }
    fn name(&self) -> &'static str {
        "c08.conn"
    }
    fn rule(&self) -> &'static str {
        "a real loopback server; ONE keep-alive connection carrying 1-12 requests, each sent after the previous response was read (one in five written in two TCP segments 25 ms apart: the blank line on its own, the last LF on its own, cuts elsewhere), over 22 request kinds: GET/HEAD/POST/OPTIONS to cached, uncached, empty-body, 204, missing paths; gzip/br/zstd negotiation; ranges 206/416 (also HEAD); If-Modified-Since (304); unsafe paths (400, also HEAD); identity;q=0 (406); cross-origin (403); a 70 kB compressed body; and a rate-limited server (max 4) where the sequence crosses into 429 (also for HEAD); the raw connection bytes are captured and given to the model's strict client (parseAll), whose result is compared with the harness' own strict reader; oracle: one response per request in order, status in the expected set, exactly one content-length equal to the body bytes that follow, zero body bytes for HEAD, HEAD length = GET length for the same headers; non-trivial = >= 3 requests incl. a HEAD or an error"
    }
    fn parallel(&self) -> bool {
        false
    }
    fn generate(&self, ctx: &Ctx, rng: &mut Rng) -> Vec<String> {
        let n = if ctx.mode == Mode::Quick { 60 } else { 1500 };
        let mut v = vec![
            // F22: a rate-limited HEAD
            "c08.conn 1 [get,get,head,head,head,head,get,head,get]".to_owned(),
            "c08.conn 0 [getgz,headgz,get,head,range,headrange]".to_owned(),
            // a cold HEAD, then the GET, then HEAD again — for each encoder
            "c08.conn 0 [headbig,big,headbig]".to_owned(),
            "c08.conn 0 [headbigbr,bigbr,headbigbr,headbigzstd,bigzstd,headbigzstd]".to_owned(),
            // bodies sent by a response future: a handler of its own, and the built-in file streamer with every kind of range
            "c08.conn 0 [piped,pipedhead,get,pipedrange,pipedhead,piped]".to_owned(),
            // bodies read to their end by the handler, each followed by another request
            "c08.conn 0 [postall,get,postalllate,get,postalllong,head,postalllate,postall,get]".to_owned(),
            "c08.conn 0 [stream,streamhead,get,streamrange,streambeyond,streampast,streamhead,stream]".to_owned(),
            // a body nobody reads that came with the head, then more requests
            "c08.conn 0 [postwith,get,postwith,head,postwith,postwith,get]".to_owned(),
        ];
        // requests arriving in two TCP segments: the blank line on its own, the last LF on its own, cuts elsewhere
        v.push("c08.conn 0 [get,get/2,head/1,get/4,get/3,getgz/2,head/2,get/-1,get/-9,post/2,get]".to_owned());
        for i in 0..n {
            let limited = i % 5 == 0;
            let k = rng.range(1, 12);
            v.push(format!("c08.conn {} {}", b01(limited), list((0..k).map(|_| {
                let kind = (*rng.pick(&KINDS)).to_owned();
                if kind != "postlate" && rng.chance(1, 5) { format!("{kind}/{}", *rng.pick(&[1i64, 2, 3, 4, 5, -1, -5, -17])) } else { kind }
            }))));
        }
        v
    }
    fn driver_line(&self, _l: &str) -> String {
        "c08.parse - []".into()
    }
    fn canon(&self, out: &str) -> String {
        if out == "ok" || out == "[]" { "match".into() } else { out.to_owned() }
    }
    fn run_impl(&self, ctx: &Ctx, line: &str) -> String {
        let p: Vec<&str> = line.split(' ').collect();
        let limited = p[1] == "1";
        let Some(srv) = TestServer::try_start(build(limited)) else { return "inconclusive: server did not start".into() };
        // the readiness probe came from 127.0.0.1 and was counted by the limiter: use another source address
        let Ok(stream) = connect_from(if limited { 77 } else { 1 }, srv.port) else { srv.stop(); return "inconclusive: connect".into() };
        let mut cl = StrictClient::new(stream);
        let mut problems = Vec::new();
        let mut heads = Vec::new();
        let mut mine = Vec::new();
        let mut last_get_len: std::collections::HashMap<String, usize> = Default::default();
        let kinds = parse_list(p[2]).unwrap();
        for (i, k) in kinds.iter().enumerate() {
            // `kind/N`: the request is written in two segments, the second holding its last N bytes, 25 ms apart
            // (N = 2: the blank line on its own; N = 1: `…\r\n\r` | `\n`); `kind/-N`: cut N bytes after the start
            let (k, split): (&String, Option<i64>) = (k, None);
            let (base, split) = match k.split_once('/') { Some((b, n)) => (b.to_owned(), n.parse::<i64>().ok()), None => (k.clone(), split) };
            let k = &base;
            let (raw, expect, head) = kind(k);
            let mut bytes = raw.into_bytes();
            bytes.extend_from_slice(b"\r\n");
            if k == "postwith" {
                bytes.extend_from_slice(b"GET /smuggled HTTP/1.1\r\nhost: x\r\n\r\n");
            }
            let sent = match split {
                None => cl.send(&bytes),
                Some(n) => {
                    let cut = if n >= 0 { bytes.len().saturating_sub(n as usize) } else { ((-n) as usize).min(bytes.len()) };
                    cl.send(&bytes[..cut]).and_then(|_| { std::thread::sleep(std::time::Duration::from_millis(25)); cl.send(&bytes[cut..]) })
                }
            };
            if sent.is_err() {
                problems.push(format!("request {i} ({k}): send failed")); break;
            }
            if k == "postall" {
                let _ = cl.send(&[b'x'; 40]);
            }
            if k == "postalllate" {
                std::thread::sleep(std::time::Duration::from_millis(40));
                let _ = cl.send(&[b'y'; 40]);
            }
            if k == "postalllong" {
                let _ = cl.send(&vec![b'z'; 3000]);
            }
            if k == "postlate" {
                std::thread::sleep(std::time::Duration::from_millis(40));
                let _ = cl.send(b"GET /smuggled HTTP/1.1\r\nhost: x\r\n\r\n");
            }
            if k == "postpartial" {
                let _ = cl.send(b"0123456789GET /smuggled HTTP/1.1\r\nhost: x\r\n\r\n");
            }
            if k == "posthuge" {
                // 300 000 bytes that read as requests if they are ever parsed
                let unit = b"GET /smuggled HTTP/1.1\r\nhost: x\r\n\r\n";
                let mut body = Vec::with_capacity(300_000);
                while body.len() < 300_000 { body.extend_from_slice(unit); }
                body.truncate(300_000);
                let _ = cl.send(&body);
            }
            let r = match cl.read_response(head) {
                Ok(r) => r,
                Err(ReadError::Eof) if limited => { break; } // dropped by the limiter beyond 3x: allowed to close
                Err(e) => { problems.push(format!("request {i} ({k}): {e:?}")); break; }
            };
            heads.push(b01(head).to_owned());
            let cl_count = r.header_count("content-length");
            mine.push(format!("{}:{}:{cl_count}", r.status, r.body.len()));
            // after an unread late body the next response must be to OUR request, never to the smuggled one
            // what the handler left of a body is read and discarded by the server (up to 4 MiB): the connection stays in step
            if i > 0 && ["postlate", "postpartial", "posthuge", "postwith"].iter().any(|b| kinds[i - 1].split('/').next() == Some(*b)) && r.status == 404 && !expect.contains(&404) { problems.push(format!("request {i} ({k}): the unread request body was parsed as a request (404 for /smuggled)")); }
            let ok_status = expect.contains(&r.status) || (limited && r.status == 429);
            if !ok_status { problems.push(format!("request {i} ({k}): status {} not in {expect:?}", r.status)); }
            let cl_val: Option<usize> = r.header("content-length").and_then(|v| std::str::from_utf8(v).ok()).and_then(|s| s.parse().ok());
            if cl_count != 1 { problems.push(format!("request {i} ({k}): {cl_count} content-length headers")); }
            if !head && r.status != 204 && r.status != 304 && cl_val != Some(r.body.len()) { problems.push(format!("request {i} ({k}): content-length {cl_val:?} but {} body bytes", r.body.len())); }
            // HEAD length = GET length for the same request headers (when both were answered normally)
            let key = k.trim_start_matches("head").to_owned();
            let key = if key.is_empty() { "get".to_owned() } else if key == "gz" { "getgz".into() } else { key };
            if r.status == 429 {
                // the rate-limit page is the same for everybody: HEAD must declare what GET declares (either order)
                let slot = if head { "429-head" } else { "429-get" };
                let other = if head { "429-get" } else { "429-head" };
                if let (Some(o), Some(c)) = (last_get_len.get(other), cl_val) { if *o != c { problems.push(format!("request {i} ({k}): 429 content-length {c} for {} but {o} for {}", if head { "HEAD" } else { "GET" }, if head { "GET" } else { "HEAD" })); } }
                if let Some(c) = cl_val { last_get_len.insert(slot.to_owned(), c); }
            }
            if r.status != 429 {
                if head {
                    if let (Some(g), Some(h)) = (last_get_len.get(&key), cl_val) { if *g != h { problems.push(format!("request {i} ({k}): HEAD content-length {h} but GET had {g}")); } }
                    // the HEAD may come first (a cold entry): remembered for the GET that follows
                    if let Some(h) = cl_val { if r.status == 200 { last_get_len.insert(format!("head:{key}"), h); } }
                } else if r.status != 304 {
                    if let (Some(h), Some(g)) = (last_get_len.get(&format!("head:{k}")), cl_val) { if r.status == 200 && *h != g { problems.push(format!("request {i} ({k}): GET content-length {g} but the HEAD before it declared {h}")); } }
                    last_get_len.insert(k.clone(), cl_val.unwrap_or(0));
                }
            }
        }
        // nothing may follow the last response
        std::thread::sleep(std::time::Duration::from_millis(20));
        let _ = cl.stream.set_read_timeout(Some(std::time::Duration::from_millis(50)));
        let mut extra = [0u8; 64];
        if let Ok(n) = std::io::Read::read(&mut cl.stream, &mut extra) { if n > 0 { cl.captured.extend_from_slice(&extra[..n]); problems.push(format!("{n} stray bytes after the last response")); } }
        if !cl.buf.is_empty() { problems.push(format!("{} unread bytes after the last response", cl.buf.len())); }
        srv.stop();
        // the model's strict client on the very same bytes
        let model = run_driver(&ctx.driver, &[format!("c08.parse {} {}", hex(&cl.captured), list(heads.iter().cloned()))]).unwrap_or_default();
        let mine_s = list(mine.iter().cloned());
        if model.first().map(String::as_str) != Some(mine_s.as_str()) { problems.push(format!("model strict client: {:?}, harness strict client: {mine_s}", model.first())); }
        if problems.is_empty() { "ok".into() } else { format!("framing {}", problems.join(" || ")) }
    }
    fn oracle(&self, _ctx: &Ctx, line: &str, out: &str) -> Option<(String, String)> {
        if out == "ok" { None } else { Some((format!("framing:{line}"), out.to_owned())) }
    }
    fn nontrivial(&self, line: &str, _o: &str) -> bool {
        line.matches(',').count() >= 2 && (line.contains("head") || line.contains("missing") || line.contains("416") || line.contains("unsafe"))
    }
    fn classify(&self, l: &str, o: &str) -> String {
        format!("{} {}", if l.split(' ').nth(1) == Some("1") { "limited" } else { "plain" }, o.split(' ').next().unwrap_or(""))
    }
    fn shrink(&self, line: &str) -> Vec<String> {
        let p: Vec<&str> = line.split(' ').collect();
        let ks = parse_list(p[2]).unwrap();
        (0..ks.len()).map(|i| { let mut k = ks.clone(); k.remove(i); format!("{} {} {}", p[0], p[1], list(k)) }).collect()
    }
}

/// bodies larger than what the kernel takes in one write: the declared length is still what follows, and the connection
/// stays in step afterwards
pub struct Huge;
impl Group for Huge {
    fn timing_sensitive(&self) -> bool {
        true
    }
    fn name(&self) -> &'static str {
        "c08.huge"
    }
    fn rule(&self) -> &'static str {
        "a real loopback server; one keep-alive connection: GET /small, GET /huge (a handler's body of 5-24 MiB of noise, far more than one socket write takes), GET /small, HEAD /small, GET /huge, HEAD /huge; the client reads at once or after a pause (the socket buffers are full meanwhile); oracle: every response complete — content-length equals the body bytes that follow, the bytes are the handler's, HEAD declares the GET's length — and the responses after it belong to their requests; non-trivial = always"
    }
    fn parallel(&self) -> bool {
        false
    }
    fn compare_with_model(&self, _line: &str) -> bool {
        false
    }
    fn generate(&self, ctx: &Ctx, _rng: &mut Rng) -> Vec<String> {
        let mut v = Vec::new();
        let sizes: &[usize] = if ctx.mode == Mode::Quick { &[5, 12] } else { &[5, 8, 12, 24] };
        for mib in sizes {
            for pause in [0, 300] {
                v.push(format!("c08.huge {mib} {pause}"));
            }
        }
        v
    }
    fn run_impl(&self, _ctx: &Ctx, line: &str) -> String {
        let p: Vec<&str> = line.split(' ').collect();
        let (mib, pause): (usize, u64) = (p[1].parse().unwrap(), p[2].parse().unwrap());
        let size = mib << 20;
        let mut ext = Extensions::empty();
        ext.add_prepare_single("/small", prepare!(_r, _h, _p, _a, { FatResponse::no_cache(Response::new(Bytes::from_static(b"a small body of thirty-one bytes"))) }));
        ext.add_prepare_single("/huge", prepare!(_r, _h, _p, _a, move |size: usize| {
            let mut r = Response::new(Bytes::from(gen_noise(*size, 5)));
            r.headers_mut().insert("content-type", HeaderValue::from_static("application/octet-stream"));
            FatResponse::no_cache(r)
        }));
        let mut host = Host::unsecure("localhost", "/nonexistent", ext, host::Options::default());
        host.limiter.disable();
        let Some(srv) = TestServer::try_start(HostCollection::builder().insert(host).build()) else { return "inconclusive: server did not start".into() };
        let Some(stream) = connect_retry(srv.port) else { srv.stop(); return "inconclusive: connect".into() };
        let _ = stream.set_read_timeout(Some(std::time::Duration::from_secs(4)));
        let mut cl = StrictClient::new(stream);
        let want = gen_noise(size, 5);
        let mut problems = Vec::new();
        for (i, (m, path)) in [("GET", "/small"), ("GET", "/huge"), ("GET", "/small"), ("HEAD", "/small"), ("GET", "/huge"), ("HEAD", "/huge")].iter().enumerate() {
            if cl.send(format!("{m} {path} HTTP/1.1\r\nhost: localhost\r\n\r\n").as_bytes()).is_err() { problems.push(format!("request {i}: send failed")); break; }
            if *path == "/huge" && pause > 0 { std::thread::sleep(std::time::Duration::from_millis(pause)); }
            cl.captured.clear();
            let r = match cl.read_response(*m == "HEAD") {
                Ok(r) => r,
                Err(e) => { problems.push(format!("request {i} ({m} {path}): {e:?} after {} bytes of the response", cl.captured.len())); break; }
            };
            let clen: Option<usize> = r.header("content-length").and_then(|v| std::str::from_utf8(v).ok()).and_then(|s| s.parse().ok());
            let expect_len = if *path == "/huge" { size } else { 32 };
            if r.status != 200 { problems.push(format!("request {i} ({m} {path}): status {}", r.status)); }
            if clen != Some(expect_len) { problems.push(format!("request {i} ({m} {path}): content-length {clen:?}, the body has {expect_len} bytes")); }
            if *m == "GET" && r.body.len() != expect_len { problems.push(format!("request {i} ({m} {path}): {} body bytes follow", r.body.len())); }
            if *m == "GET" && *path == "/huge" && r.body != want { problems.push(format!("request {i}: the bytes differ from the handler's")); }
            if *m == "GET" && *path == "/small" && r.body != b"a small body of thirty-one bytes" { problems.push(format!("request {i}: not the small body: {:?}", String::from_utf8_lossy(&r.body[..r.body.len().min(40)]))); }
        }
        srv.stop();
        if problems.is_empty() { "ok".into() } else { problems.join(" | ") }
    }
    fn oracle(&self, _ctx: &Ctx, line: &str, out: &str) -> Option<(String, String)> {
        if out.starts_with("inconclusive") || out == "ok" { return None; }
        Some((format!("huge:{line}"), out.to_owned()))
    }
    fn nontrivial(&self, _l: &str, _o: &str) -> bool {
        true
    }
}

/// `Http1Body`'s bookkeeping on a scripted socket: the handler's reads, then `discard_rest`
pub struct BodyAcct;
impl Group for BodyAcct {
    fn name(&self) -> &'static str {
        "c08.body"
    }
    fn rule(&self) -> &'static str {
        "application::Http1Body::new(reader, early bytes, declared length) over a scripted reader that holds exactly the rest of the body and then stays open (reads pending): 0-2 read_to_bytes calls with limits around 0, the early bytes, the declared length and far above; then discard_rest(max) (through the verif-hooks accessor) with max in {0, 10, 4096, 4 MiB} and a patience of 30 ms; early in {0,1,20,100}, bodies from empty to 5000 bytes beyond the early part, chunk patterns {all, 1, 7, 4096}; what each read returned, discard_rest's answer and the reader's position compared with the model (`BodyAcct`); oracle from the statement: the first read is the body up to the limit (the right bytes), later ones are empty, and if the connection is to be used again the reader stands exactly at the end of the body; non-trivial = a partial read or early bytes"
    }
    fn generate(&self, _ctx: &Ctx, rng: &mut Rng) -> Vec<String> {
        let mut v = Vec::new();
        for early in [0usize, 1, 20, 100] {
            for extra in [0usize, 1, 50, 5000] {
                let declared = early + extra;
                let cands = [0usize, 1, 10, early.saturating_sub(1), early, early + 1, declared.saturating_sub(1), declared, declared + 5, 1 << 20];
                let mut limit_sets: Vec<Vec<usize>> = vec![vec![]];
                for m in cands { limit_sets.push(vec![m]); }
                for _ in 0..4 { limit_sets.push(vec![*rng.pick(&cands), *rng.pick(&cands)]); }
                for ls in limit_sets {
                    let max = *rng.pick(&[0usize, 10, 4096, 1 << 22]);
                    let pat = *rng.pick(&["[]", "[1]", "[7]", "[4096]"]);
                    v.push(format!("c08.body {early} {declared} {} {max} {pat}", list(ls.iter().map(|x| x.to_string()))));
                }
            }
        }
        v
    }
    /// the model takes what each call's reads took off the socket from the observation (` takes=[…]`), and says whether it
    /// allows them
    fn driver_line_with(&self, line: &str, impl_out: &str) -> String {
        let p: Vec<&str> = line.split(' ').collect();
        let takes = impl_out.split(' ').find_map(|t| t.strip_prefix("takes=")).and_then(parse_list).unwrap_or_default();
        let limits = parse_list(p[3]).unwrap_or_default();
        let calls = list(limits.iter().enumerate().map(|(i, l)| format!("{l}@{}", takes.get(i).map(String::as_str).unwrap_or("0"))));
        format!("c08.body {} {} {calls} {}", p[1], p[2], p[4])
    }
    fn canon(&self, out: &str) -> String {
        out.split(" takes=").next().unwrap_or(out).to_owned()
    }
    fn run_impl(&self, _ctx: &Ctx, line: &str) -> String {
        use crate::groups::c18::Scripted;
        let p: Vec<&str> = line.split(' ').collect();
        let (early, declared, max): (usize, usize, usize) = (p[1].parse().unwrap(), p[2].parse().unwrap(), p[4].parse().unwrap());
        let limits: Vec<usize> = parse_list(p[3]).unwrap().iter().map(|s| s.parse().unwrap()).collect();
        let pattern: Vec<usize> = parse_list(p[5]).unwrap().iter().map(|s| s.parse().unwrap()).collect();
        let content = gen_bytes(declared, 3);
        let rd = std::sync::Arc::new(tokio::sync::Mutex::new(Scripted { data: content[early..].to_vec(), pos: 0, pattern, call: 0, log: vec![], open: true }));
        let rt = tokio::runtime::Builder::new_current_thread().enable_time().build().unwrap();
        let rd2 = rd.clone();
        let content2 = content.clone();
        let r = rt.block_on(async move {
            tokio::time::timeout(std::time::Duration::from_secs(5), async move {
                let mut body = kvarn::application::Http1Body::new(rd2.clone(), Bytes::copy_from_slice(&content2[..early]), declared);
                let mut lens = Vec::new();
                let mut takes = Vec::new();
                let mut wrong = false;
                for m in limits {
                    let before = rd2.lock().await.pos;
                    match body.read_to_bytes(m).await {
                        Ok(b) => { if b[..] != content2[..b.len().min(content2.len())] { wrong = true; } lens.push(b.len().to_string()); }
                        Err(_) => lens.push("err".into()),
                    }
                    takes.push((rd2.lock().await.pos - before).to_string());
                }
                let ok = kvarn::verif::discard_rest(&mut body, max, std::time::Duration::from_millis(30)).await;
                let taken = rd2.lock().await.pos;
                format!("reads={} discard={} taken={taken}{} takes={}", list(lens), b01(ok), if wrong { " WRONG-BYTES" } else { "" }, list(takes))
            }).await
        });
        r.unwrap_or_else(|_| "hang".into())
    }
    fn oracle(&self, _ctx: &Ctx, line: &str, out: &str) -> Option<(String, String)> {
        let p: Vec<&str> = line.split(' ').collect();
        let (early, declared): (usize, usize) = (p[1].parse().ok()?, p[2].parse().ok()?);
        let limits: Vec<usize> = parse_list(p[3])?.iter().filter_map(|s| s.parse().ok()).collect();
        let key = format!("body:{line}");
        if out == "hang" || out == "panic" || out.contains("WRONG-BYTES") || out.contains("err") { return Some((key, out.to_owned())); }
        let get = |k: &str| out.split(' ').find_map(|t| t.strip_prefix(k)).unwrap_or("").to_owned();
        let lens: Vec<usize> = parse_list(&get("reads="))?.iter().filter_map(|s| s.parse().ok()).collect();
        // the first read that asks for anything gets the body up to its limit, the others nothing
        let mut given = false;
        for (m, l) in limits.iter().zip(&lens) {
            let want = if given { 0 } else { declared.min(*m) };
            if *l != want { return Some((key, format!("read_to_bytes({m}) of a {declared}-byte body returned {l} bytes (expected {want}): {out}"))); }
            if want > 0 { given = true; }
        }
        if get("discard=") == "1" && get("taken=").parse::<usize>().ok()? != declared - early {
            return Some((key, format!("the connection is to be used again, but the reader took {} of the {} bytes that were still to come: {out}", get("taken="), declared - early)));
        }
        None
    }
    fn nontrivial(&self, line: &str, _o: &str) -> bool {
        let p: Vec<&str> = line.split(' ').collect();
        p[1] != "0" || p[3] != "[]"
    }
    fn classify(&self, _l: &str, o: &str) -> String {
        o.split(' ').nth(1).unwrap_or("").to_owned()
    }
}
