import KvarnModel.VaryConc
/-! C05 when handlers overlap: **while the page stays cached, no variant is ever lost and no class is computed a second
time — for every interleaving of looks and finishes, any number of overlapping requests.** The premise "every running
handler started on the cached page" is exactly what the code needs: the witnesses below show a variant lost (and computed
again) when a request that started on the *uncached* page finishes late, and when the entry is copied at look time (the
code before the repair F46, and the seeded change C05-7). -/
namespace VaryConc

theorem takeInflight_spec (c : Class) : ∀ (l : List (Class × Bool)) (w : Bool) (rest : List (Class × Bool)),
    takeInflight c l = some (w, rest) → (c, w) ∈ l ∧ ∀ p ∈ rest, p ∈ l := by
  intro l
  induction l with
  | nil => intro w rest h; simp [takeInflight] at h
  | cons hd tl ih =>
    intro w rest h
    obtain ⟨d, w0⟩ := hd
    unfold takeInflight at h
    split at h
    · rename_i hd
      cases h
      subst hd
      exact ⟨by simp, fun p hp => by simp [hp]⟩
    · split at h
      · cases h
      · rename_i w' rest' heq
        cases h
        obtain ⟨h1, h2⟩ := ih w rest' heq
        refine ⟨by simp [h1], ?_⟩
        intro p hp
        simp only [List.mem_cons] at hp ⊢
        rcases hp with rfl | hp
        · exact Or.inl rfl
        · exact Or.inr (h2 p hp)

/-- every running handler looked at the page while it was cached -/
def Warm (st : St) : Prop := ∀ p ∈ st.inflight, p.2 = true

theorem mem_push (c x : Class) (l : List Class) (h : x ∈ l) : x ∈ push c l := by
  unfold push; split <;> simp [h]

theorem self_mem_push (c : Class) (l : List Class) : c ∈ push c l := by
  unfold push; split <;> simp_all

/-- one step on a cached page, nothing cleared: the entry only grows, and the premise is kept -/
theorem step_monotone (st : St) (l : List Class) (a : Act) (he : st.entry = some l) (hw : Warm st) (ha : a ≠ .clear) :
    ∃ l', (step st a).entry = some l' ∧ (∀ x ∈ l, x ∈ l') ∧ Warm (step st a) := by
  cases a with
  | clear => exact absurd rfl ha
  | look c =>
    simp only [step, he]
    split
    · exact ⟨l, he, fun x hx => hx, hw⟩
    · refine ⟨l, rfl, fun x hx => hx, ?_⟩
      intro p hp
      simp only [List.mem_append, List.mem_singleton] at hp
      rcases hp with hp | rfl
      · exact hw p hp
      · rfl
  | finish c =>
    simp only [step]
    cases ht : takeInflight c st.inflight with
    | none => exact ⟨l, he, fun x hx => hx, hw⟩
    | some r =>
      obtain ⟨w, rest⟩ := r
      obtain ⟨h1, h2⟩ := takeInflight_spec c _ w rest ht
      have hwt : w = true := hw _ h1
      subst hwt
      simp only [he, if_true]
      exact ⟨push c l, rfl, fun x hx => mem_push c x l hx, fun p hp => hw p (h2 p hp)⟩

/-- … for whole runs: **a variant that is cached stays cached**, whatever looks and finishes interleave -/
theorem run_monotone : ∀ (acts : List Act) (st : St) (l : List Class), st.entry = some l → Warm st →
    (∀ a ∈ acts, a ≠ .clear) →
    ∃ l', (run st acts).entry = some l' ∧ (∀ x ∈ l, x ∈ l') ∧ Warm (run st acts) := by
  intro acts
  induction acts with
  | nil => intro st l he hw _; exact ⟨l, he, fun x hx => hx, hw⟩
  | cons a acts ih =>
    intro st l he hw hc
    obtain ⟨l1, h1, h2, h3⟩ := step_monotone st l a he hw (hc a (by simp))
    obtain ⟨l2, g1, g2, g3⟩ := ih (step st a) l1 h1 h3 (fun b hb => hc b (by simp [hb]))
    exact ⟨l2, by simpa [run] using g1, fun x hx => g2 x (h2 x hx), by simpa [run] using g3⟩

/-- a request that finishes on the cached page leaves its variant in the entry -/
theorem finish_caches (st : St) (l : List Class) (c : Class) (he : st.entry = some l) (hw : Warm st)
    (hr : ∃ w, (c, w) ∈ st.inflight) : ∃ l', (step st (.finish c)).entry = some l' ∧ c ∈ l' := by
  simp only [step]
  cases ht : takeInflight c st.inflight with
  | none =>
    exfalso
    obtain ⟨w, hm⟩ := hr
    -- a running handler of the class is found
    have : ∀ (li : List (Class × Bool)), (c, w) ∈ li → takeInflight c li ≠ none := by
      intro li
      induction li with
      | nil => intro h; simp at h
      | cons hd tl ih =>
        intro h
        obtain ⟨d, w0⟩ := hd
        unfold takeInflight
        split
        · simp
        · rename_i hne
          simp only [List.mem_cons, Prod.mk.injEq] at h
          rcases h with ⟨rfl, _⟩ | h
          · exact absurd rfl hne
          · have := ih h
            split
            · rename_i heq; exact absurd heq this
            · simp
    exact this _ hm ht
  | some r =>
    obtain ⟨w, rest⟩ := r
    obtain ⟨h1, _⟩ := takeInflight_spec c _ w rest ht
    have hwt : w = true := hw _ h1
    subst hwt
    simp only [he, if_true]
    exact ⟨push c l, rfl, self_mem_push c l⟩

/-- **one computation per class while the page stays cached, whatever overlaps**: once a class is in the entry, no
interleaving of looks and finishes (of any classes, any number of requests) makes its handler run again -/
theorem cached_class_not_recomputed : ∀ (acts : List Act) (st : St) (l : List Class) (c : Class),
    st.entry = some l → c ∈ l → Warm st → (∀ a ∈ acts, a ≠ .clear) →
    count (run st acts) c = count st c := by
  intro acts
  induction acts with
  | nil => intro st l c _ _ _ _; rfl
  | cons a acts ih =>
    intro st l c he hc hw hn
    obtain ⟨l1, h1, h2, h3⟩ := step_monotone st l a he hw (hn a (by simp))
    have hstep : count (step st a) c = count st c := by
      cases a with
      | clear => exact absurd rfl (hn _ (by simp))
      | look d =>
        simp only [step, he]
        split
        · rfl
        · rename_i hd
          have hne : d ≠ c := fun e => hd (e ▸ hc)
          simp [count, List.filter_append, hne]
      | finish d =>
        simp only [step]
        cases takeInflight d st.inflight with
        | none => rfl
        | some r =>
          obtain ⟨w, rest⟩ := r
          simp only
          split
          · split <;> rfl
          · rfl
    have := ih (step st a) l1 c h1 (h2 c hc) h3 (fun b hb => hn b (by simp [hb]))
    simpa [run, hstep] using this

/-! ### where the premise is needed (the same histories are run on the real code by `c05.overlap`) -/

/-- a first request on the *uncached* page (class 4) that finishes after another one (class 5) stored its variant
replaces the entry: class 5 is computed a second time. This is the pinned code's behaviour too (`c05.overlap 0 1 0`:
`mm:2`) — outside C05's quantifier (arrival orders), recorded in DESIGN §8. -/
example : count (run {} [.look 4, .look 5, .finish 5, .finish 4, .look 5, .finish 5]) 5 = 2 := by decide

/-- on the cached page the same interleaving loses nothing -/
example : count (run { entry := some [0] } [.look 4, .look 5, .finish 5, .finish 4, .look 5, .finish 5]) 5 = 1 := by
  decide

/-- the entry copied at look time (F46's code, the seeded change C05-7): the later finisher writes back a copy without
the earlier one's variant, even on the cached page -/
example :
    let s1 := run { entry := some [0] } [.look 4, .look 5, .finish 5]
    let s2 := finishStale s1 4 [0]
    count (run s2 [.look 5, .finish 5]) 5 = 2 := by decide

end VaryConc
