import KvarnModel.Rust
import KvarnModel.Buffers
/-
C07 — the HTTP/1 request reader: `read::{contains_two_newlines, read_more, read_headers, request}`,
`parse::headers`, `utils::{valid_method, valid_version, get_body_length_request}`, `Http1Body::read_to_bytes`.
Transcribed with their quirks. `http::{Method, HeaderName, HeaderValue}` validity are the byte predicates below;
`http::Uri` parsing of the assembled `scheme://host/target` is left to the harness (the real crate).
-/
namespace Http1
open Rust

def CR : UInt8 := 13
def LF : UInt8 := 10
def SP : UInt8 := 32
def TAB : UInt8 := 9
def COLON : UInt8 := 58

inductive Err
  | headerTooLong | unexpectedEnd | syntax | invalidMethod | invalidVersion | noPath | noHost
  | illegalName | illegalValue
  deriving DecidableEq, Repr

/-- `contains_two_newlines` -/
def twoNewlinesAux : Bytes → Nat → Bool
  | [], _ => false
  | b :: r, inRow =>
    if b = LF then (if inRow = 0 then twoNewlinesAux r 1 else true)
    else if b = CR then twoNewlinesAux r inRow
    else twoNewlinesAux r 0
def containsTwoNewlines (b : Bytes) : Bool := twoNewlinesAux b 0

def s2b (s : String) : Bytes := s.toUTF8.toList
-- byte lists rather than string literals: string literals do not reduce in the kernel, these do (`decide`)
/-- GET, HEAD, POST, PUT, DELETE, TRACE, OPTIONS, CONNECT, PATCH, COPY, LOCK, MKCOL, MOVE, PROPFIND, PROPPATCH, UNLOCK -/
def METHODS : List Bytes := [
  [71, 69, 84],
  [72, 69, 65, 68],
  [80, 79, 83, 84],
  [80, 85, 84],
  [68, 69, 76, 69, 84, 69],
  [84, 82, 65, 67, 69],
  [79, 80, 84, 73, 79, 78, 83],
  [67, 79, 78, 78, 69, 67, 84],
  [80, 65, 84, 67, 72],
  [67, 79, 80, 89],
  [76, 79, 67, 75],
  [77, 75, 67, 79, 76],
  [77, 79, 86, 69],
  [80, 82, 79, 80, 70, 73, 78, 68],
  [80, 82, 79, 80, 80, 65, 84, 67, 72],
  [85, 78, 76, 79, 67, 75]]
/-- HTTP/0.9, HTTP/1.0, HTTP/1.1, HTTP/2, HTTP/3 -/
def VERSIONS : List Bytes := [
  [72, 84, 84, 80, 47, 48, 46, 57],
  [72, 84, 84, 80, 47, 49, 46, 48],
  [72, 84, 84, 80, 47, 49, 46, 49],
  [72, 84, 84, 80, 47, 50],
  [72, 84, 84, 80, 47, 51]]
def validMethod (b : Bytes) : Bool := METHODS.any (startsWith b)
def validVersion (b : Bytes) : Bool := VERSIONS.any (startsWith b)
def plausible (b : Bytes) : Bool := validMethod b || validVersion b

/-- `read_headers`: the reader hands out `k` bytes per call, `1 ≤ k ≤ min(avail, space)` as `sched` dictates
(0 only at the end of the stream); `space = min(capacity, max) - read`, the capacity grows by at least 512
whenever fewer than 512 bytes are spare (the growth beyond that minimum is `gs`: allocator's choice). -/
def readHeadersLoop : (fuel : Nat) → (buf : Bytes) → (cap : Nat) → (stream : Bytes) → (sched : List Nat) →
    (gs : List Nat) → (max : Nat) → (eof : Bool) → Except Err Bytes
  | 0, buf, _, _, _, _, _, _ => .ok buf
  | fuel + 1, buf, cap, stream, sched, gs, max, eof =>
    if buf.length ≥ max then .error .headerTooLong else
    let need := if buf.length + 512 > max then buf.length + (buf.length + 512 - max) else buf.length + 512
    let cap' := if cap < buf.length + 512 then (if cap ≥ need then cap else need) + gs.headD 0 else cap
    let gs' := if cap < buf.length + 512 then gs.tail else gs
    let endp := min cap' max
    let space := endp - buf.length
    let k := min (min (Nat.max (sched.headD space) 1) space) stream.length
    let buf' := buf ++ stream.take k
    if k = 0 then
      -- nothing more on the stream: the peer closed (`read` returns 0), or it keeps the connection open and the
      -- read times out
      (if !eof then .error .unexpectedEnd else if plausible buf' then .ok buf' else .error .syntax)
    else if buf'.length ≥ 9 && !plausible buf' then .error .syntax
    else if containsTwoNewlines buf' then
      (if plausible buf' then .ok buf' else .error .syntax)
    else readHeadersLoop fuel buf' cap' (stream.drop k) sched.tail gs' max eof

/-- `eof = true`: the peer closes after `stream`; `eof = false`: it keeps the connection open (a keep-alive client
waiting for its response), so a read with nothing to deliver runs into the time-out -/
def readHeaders (stream : Bytes) (sched gs : List Nat) (max : Nat) (eof : Bool := true) : Except Err Bytes :=
  readHeadersLoop (stream.length + 2) [] 512 stream sched gs max eof

/-! ### `parse::headers` -/
def isTchar (b : UInt8) : Bool :=
  isDigit b || isUpper b || isLower b ||
  b == 33 || b == 35 || b == 36 || b == 37 || b == 38 || b == 39 || b == 42 || b == 43 || b == 45 || b == 46 ||
  b == 94 || b == 95 || b == 96 || b == 124 || b == 126
def validName (n : Bytes) : Bool := !n.isEmpty && n.all isTchar
def validValueByte (b : UInt8) : Bool := (32 ≤ b && b != 127) || b == TAB
def validValue (v : Bytes) : Bool := v.all validValueByte

structure HSt where
  inValue : Bool := false
  lf : Nat := 0
  nameStart : Nat := 0
  nameEnd : Nat := 0
  valueStart : Nat := 0
  hdrs : List (Bytes × Bytes) := []

def skipWhile (p : UInt8 → Bool) : Bytes → Nat
  | b :: r => if p b then skipWhile p r + 1 else 0
  | [] => 0

/-- `HeaderMap::insert`: replace an existing value of the same (lower-cased) name -/
def hinsert (h : List (Bytes × Bytes)) (n v : Bytes) : List (Bytes × Bytes) :=
  let n' := n.map toLower
  h.filter (fun e => !(e.1 == n')) ++ [(n', v)]

/-- one iteration of a parser loop: stop with a result, or go on with a new state -/
inductive Step (σ ρ : Type) where
  | done (r : ρ)
  | cont (s : σ)

/-- optional whitespace: space or tab -/
def isOws (x : UInt8) : Bool := x == SP || x == TAB
/-- the length of `v` without trailing optional whitespace -/
def trimEndLen (v : Bytes) : Nat := (v.reverse.dropWhile isOws).length

/-- where the value ends, for the LF at `pos`: before a CR if there is one, and before optional whitespace
(`rposition` of a byte that is neither SP nor TAB) -/
def valueEndOf (orig : Bytes) (vs pos : Nat) : Nat :=
  let valueEnd0 := if pos > vs ∧ orig[pos - 1]? = some CR then pos - 1 else pos
  match sliceGet orig vs valueEnd0 with
  | some v => vs + trimEndLen v
  | none => min vs valueEnd0

/-- one iteration of the loop of `parse::headers` at byte `b` (index `pos`, `rest` follows).
Every unchecked slice of the Rust code is a `.panic` result here (`Props/C02` proves none is reachable). -/
def hstep (orig : Bytes) (b : UInt8) (rest : Bytes) (pos : Nat) (st : HSt) :
    Step HSt (Res Err (List (Bytes × Bytes) × Nat)) :=
  if b = CR then .cont st else
  let lf := if b = LF then st.lf + 1 else 0
  if b = LF ∧ lf = 2 then .done (.ok (st.hdrs, pos + 1)) else
  let st := { st with lf := lf }
  if !st.inValue then
    if b = COLON then
      if rest.head? ≠ some SP then
        -- `&bytes[pos + 1..]`
        if pos + 1 > orig.length then .done (.panic "range start index out of range for slice") else
        let vs := pos + 1 + skipWhile isOws rest
        .cont { st with nameEnd := pos, inValue := true, valueStart := vs }
      else .cont { st with nameEnd := pos }
    else if b = SP then
      -- `&bytes[pos..]`
      if pos > orig.length then .done (.panic "range start index out of range for slice") else
      -- `position(|b| b != ' ' && b != TAB).unwrap_or(0) + pos`
      let vs := pos + (if (b :: rest).all isOws then 0 else skipWhile isOws (b :: rest))
      .cont { st with inValue := true, valueStart := vs }
    else .cont st
  else
    if b = LF then
      match sliceGet orig st.nameStart st.nameEnd with
      | none => .done (.err .illegalName)
      | some name =>
        if !validName name then .done (.err .illegalName) else
        let valueEnd := valueEndOf orig st.valueStart pos
        -- `bytes.slice(value_start..value_end)` asserts `begin <= end` and `end <= len`
        if st.valueStart > valueEnd ∨ valueEnd > orig.length then .done (.panic "Bytes::slice: range out of bounds") else
        let value := extract orig st.valueStart valueEnd
        if !validValue value then .done (.err .illegalValue) else
        .cont { st with inValue := false, nameStart := pos + 1, hdrs := hinsert st.hdrs name value }
    else .cont st

/-- the loop of `parse::headers`; returns the headers and `header_end` (bytes consumed) -/
def hgo (orig : Bytes) : Bytes → Nat → HSt → Res Err (List (Bytes × Bytes) × Nat)
  | [], pos, st => .ok (st.hdrs, pos)
  | b :: rest, pos, st =>
    match hstep orig b rest pos st with
    | .done r => r
    | .cont st' => hgo orig rest (pos + 1) st'

def parseHeaders (b : Bytes) : Res Err (List (Bytes × Bytes) × Nat) := hgo b b 0 {}

/-! ### the request line state machine of `read::request` -/
inductive Stage | method | path | version | headers deriving DecidableEq, Repr

structure RSt where
  stage : Stage := .method
  methodLen : Nat := 0
  pathStart : Nat := 0
  pathEnd : Nat := 0
  version : Bytes := []
  lf : Nat := 0
  headerEnd : Nat := 0
  hdrs : List (Bytes × Bytes) := []

def isMethodToken (m : Bytes) : Bool := !m.isEmpty && m.all isTchar
def parseVersion (v : Bytes) : Bool := VERSIONS.contains v

/-- one iteration of the `for (pos, byte)` loop of `request`. `method: [u8; 7]`, `version: [u8; 8]`:
indexing them, `&buffer[..method_len]` and `buffer.slice(header_end - 1..)` are `.panic` results. -/
def rstep (orig : Bytes) (b : UInt8) (pos : Nat) (st0 : RSt) : Step RSt (Res Err RSt) :=
  let st := { st0 with headerEnd := st0.headerEnd + 1 }
  if b = CR then .cont st else
  let lf := if b = LF then st.lf + 1 else 0
  if b = LF ∧ lf = 2 then .done (.ok { st with lf := lf }) else
  let st := { st with lf := lf }
  match st.stage with
  | .method =>
    if b = SP ∨ st.methodLen = 7 then
      -- `&buffer[..method_len]`
      if st.methodLen > orig.length then .done (.panic "range end index out of range for slice") else
      if !isMethodToken (orig.take st.methodLen) then .done (.err .invalidMethod)
      else .cont { st with stage := .path }
    else
      -- `method[method_len] = byte`
      if st.methodLen ≥ 7 then .done (.panic "index out of bounds: the len is 7") else
      .cont { st with methodLen := st.methodLen + 1 }
  | .path =>
    let st := if st.pathStart = 0 then { st with pathStart := pos } else st
    if b = SP then .cont { st with pathEnd := pos, stage := .version }
    else .cont st
  | .version =>
    if b = LF ∨ st.version.length = 8 then
      -- `&version[..version_index]`
      if st.version.length > 8 then .done (.panic "range end index out of range for slice") else
      if !parseVersion st.version then .done (.err .invalidVersion)
      else .cont { st with stage := .headers }
    else
      -- `version[version_index] = byte`
      if st.version.length ≥ 8 then .done (.panic "index out of bounds: the len is 8") else
      .cont { st with version := st.version ++ [b] }
  | .headers =>
    -- `buffer.slice(header_end - 1..)`
    if st.headerEnd = 0 then .done (.panic "attempt to subtract with overflow") else
    if st.headerEnd - 1 > orig.length then .done (.panic "Bytes::slice: range start out of bounds") else
    match parseHeaders (orig.drop (st.headerEnd - 1)) with
    | .err e => .done (.err e)
    | .panic w => .done (.panic w)
    | .ok (h, e) => .done (.ok { st with hdrs := h, headerEnd := st.headerEnd + e })

/-- the `for (pos, byte)` loop of `request`; result: final state or error -/
def rgo (orig : Bytes) : Bytes → Nat → RSt → Res Err RSt
  | [], _, st => .ok st
  | b :: rest, pos, st =>
    match rstep orig b pos st with
    | .done r => r
    | .cont st' => rgo orig rest (pos + 1) st'

structure Head where
  method : Bytes
  target : Bytes          -- path and query as sent
  version : Bytes
  host : Bytes            -- from the Host header, else the default
  headers : List (Bytes × Bytes)
  earlyStart : Nat        -- `header_end - 1`: where the early body bytes start in the buffer
  deriving Repr, DecidableEq

def HOST : Bytes := [104, 111, 115, 116]   -- "host"

/-- the last check of `request`, made after the URI was built (`InvalidPath` wins over `InvalidVersion`) -/
def Head.versionOk (h : Head) : Bool := parseVersion h.version

/-- `read::request` after `read_headers` (everything but the final `http::Uri` parse) -/
def requestHead (buf : Bytes) (defaultHost : Option Bytes) : Res Err Head :=
  match rgo buf buf 0 {} with
  | .err e => .err e
  | .panic w => .panic w
  | .ok st =>
    if st.pathEnd ≤ st.pathStart then .err .noPath else
    let host := match (st.hdrs.find? (·.1 == HOST)).map (·.2) with
      | some h => some h
      | none => defaultHost
    match host with
    | none => .err .noHost
    | some h =>
      -- `&buffer[path_start..path_end]`
      if st.pathEnd > buf.length then .panic "range end index out of range for slice" else
      -- `&method[..method_len]`
      if st.methodLen > 7 then .panic "range end index out of range for slice" else
      if !isMethodToken (buf.take st.methodLen) then .err .invalidMethod else
      -- `buffer.slice(header_end - 1..)`
      if st.headerEnd = 0 then .panic "attempt to subtract with overflow" else
      if st.headerEnd - 1 > buf.length then .panic "Bytes::slice: range start out of bounds" else
      -- the final `parse::version` check comes after the `http::Uri` parse: see `Head.versionOk`
      .ok ⟨buf.take st.methodLen, extract buf st.pathStart st.pathEnd, st.version, h, st.hdrs, st.headerEnd - 1⟩

/-- `get_body_length_request` -/
def CONTENT_LENGTH : Bytes := [99, 111, 110, 116, 101, 110, 116, 45, 108, 101, 110, 103, 116, 104]   -- "content-length"
def noBodyMethods : List Bytes := [[71, 69, 84], [72, 69, 65, 68], [79, 80, 84, 73, 79, 78, 83], [67, 79, 78, 78, 69, 67, 84], [84, 82, 65, 67, 69]]   -- GET, HEAD, OPTIONS, CONNECT, TRACE
def bodyLength (h : Head) : Nat :=
  if noBodyMethods.contains h.method then 0 else
  match (h.headers.find? (·.1 == CONTENT_LENGTH)).map (·.2) with
  | some v => if v.all (fun b => 32 ≤ b && b < 127 || b == 9) then (parseUnsigned USIZE_MAX v).getD 0 else 0
  | none => 0

/-- `Http1Body::read_to_bytes(limit)`: early bytes, then the socket through `read_to_end_or_max`, then truncate -/
def readBody (early socket : Bytes) (sched : List Nat) (gs : List Bytes) (contentLength limit : Nat) : Res Unit Bytes :=
  let len := min contentLength limit
  if len = 0 then .ok [] else
  let init := early.take len
  match Buffers.readToEndOrMax init (List.replicate (len - init.length) 0) socket sched gs len with
  | .ok b => .ok (b.take len)
  | .err e => .err e
  | .panic w => .panic w

end Http1
