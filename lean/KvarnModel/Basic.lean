def hello := "world"
