//! Shared machinery: PRNG, hex, the model-driver pipe, the `Group` trait and the runner.
use std::collections::{BTreeMap, BTreeSet};
use std::io::Write;
use std::process::{Command, Stdio};

/// xorshift64* — every random choice of a run derives from one state.
#[derive(Clone)]
pub struct Rng(pub u64);
impl Rng {
    pub fn new(seed: u64) -> Self {
        let mut r = Rng(seed ^ 0x9E37_79B9_7F4A_7C15);
        if r.0 == 0 {
            r.0 = 0x1234_5678_9abc_def1;
        }
        for _ in 0..4 {
            r.next();
        }
        r
    }
    pub fn next(&mut self) -> u64 {
        let mut x = self.0;
        x ^= x >> 12;
        x ^= x << 25;
        x ^= x >> 27;
        self.0 = x;
        x.wrapping_mul(0x2545_F491_4F6C_DD1D)
    }
    pub fn below(&mut self, n: usize) -> usize {
        if n == 0 {
            0
        } else {
            (self.next() % n as u64) as usize
        }
    }
    pub fn range(&mut self, lo: usize, hi_incl: usize) -> usize {
        lo + self.below(hi_incl - lo + 1)
    }
    pub fn chance(&mut self, num: usize, den: usize) -> bool {
        self.below(den) < num
    }
    pub fn pick<'a, T>(&mut self, xs: &'a [T]) -> &'a T {
        &xs[self.below(xs.len())]
    }
    pub fn fork(&mut self) -> Rng {
        Rng::new(self.next())
    }
}

pub fn hex(b: &[u8]) -> String {
    if b.is_empty() {
        return "-".into();
    }
    let mut s = String::with_capacity(b.len() * 2);
    for x in b {
        s.push_str(&format!("{x:02x}"));
    }
    s
}
/// `gen:<len>:<seed>`: a long deterministic byte string (same definition as `Wire.genBytes` in Lean)
pub fn gen_bytes(len: usize, seed: usize) -> Vec<u8> {
    (0..len).map(|i| ((i * 7 + seed + i / 251) % 256) as u8).collect()
}
/// bytes no compressor can shrink (xorshift64*), for bodies whose compressed form must be large
pub fn gen_noise(len: usize, seed: usize) -> Vec<u8> {
    let mut x: u64 = 0x9E37_79B9_7F4A_7C15 ^ (seed as u64 + 1).wrapping_mul(0xBF58_476D_1CE4_E5B9);
    let mut v = Vec::with_capacity(len + 8);
    while v.len() < len {
        x ^= x >> 12;
        x ^= x << 25;
        x ^= x >> 27;
        v.extend_from_slice(&x.wrapping_mul(0x2545_F491_4F6C_DD1D).to_le_bytes());
    }
    v.truncate(len);
    v
}
/// like the Lean driver's `digest`
pub fn digest(b: &[u8]) -> String {
    if b.len() <= 64 {
        return hex(b);
    }
    let mut sum: u64 = 7;
    for x in b {
        sum = (sum * 31 + *x as u64) % 1_000_000_007;
    }
    format!("len={} sum={} head={} tail={}", b.len(), sum, hex(&b[..8]), hex(&b[b.len() - 8..]))
}
pub fn unhex(s: &str) -> Option<Vec<u8>> {
    if s == "-" {
        return Some(vec![]);
    }
    if let Some(r) = s.strip_prefix("gen:") {
        let (l, sd) = r.split_once(':')?;
        return Some(gen_bytes(l.parse().ok()?, sd.parse().ok()?));
    }
    if s.len() % 2 != 0 {
        return None;
    }
    let b = s.as_bytes();
    let mut out = Vec::with_capacity(b.len() / 2);
    for i in (0..b.len()).step_by(2) {
        let h = (b[i] as char).to_digit(16)?;
        let l = (b[i + 1] as char).to_digit(16)?;
        out.push((h * 16 + l) as u8);
    }
    Some(out)
}
pub fn list(xs: impl IntoIterator<Item = String>) -> String {
    let v: Vec<String> = xs.into_iter().collect();
    format!("[{}]", v.join(","))
}
pub fn parse_list(s: &str) -> Option<Vec<String>> {
    let s = s.strip_prefix('[')?.strip_suffix(']')?;
    if s.is_empty() {
        return Some(vec![]);
    }
    Some(s.split(',').map(str::to_owned).collect())
}
pub fn b01(b: bool) -> &'static str {
    if b {
        "1"
    } else {
        "0"
    }
}

/// Run `f`, mapping a Rust panic to the canonical outcome `panic`.
pub fn guarded(f: impl FnOnce() -> String) -> String {
    match std::panic::catch_unwind(std::panic::AssertUnwindSafe(f)) {
        Ok(s) => s,
        Err(_) => "panic".to_owned(),
    }
}

/// Pipe all lines through the compiled Lean model driver, one output line per input line.
pub fn run_driver(driver: &str, lines: &[String]) -> Result<Vec<String>, String> {
    if lines.is_empty() {
        return Ok(vec![]);
    }
    let total: usize = lines.iter().map(|l| l.len()).sum();
    let _ = total;
    if lines.len() >= 96 {
        // several driver processes, lines dealt round-robin
        let k = 12;
        let mut parts: Vec<Vec<String>> = vec![Vec::new(); k];
        for (i, l) in lines.iter().enumerate() {
            parts[i % k].push(l.clone());
        }
        let mut outs: Vec<Result<Vec<String>, String>> = Vec::new();
        std::thread::scope(|s| {
            let hs: Vec<_> = parts.iter().map(|p| s.spawn(move || run_driver_one(driver, p))).collect();
            for h in hs {
                outs.push(h.join().unwrap());
            }
        });
        let mut its = Vec::new();
        for o in outs {
            its.push(o?.into_iter());
        }
        let mut res = Vec::with_capacity(lines.len());
        for i in 0..lines.len() {
            res.push(its[i % k].next().ok_or("driver output short")?);
        }
        return Ok(res);
    }
    run_driver_one(driver, lines)
}

fn run_driver_one(driver: &str, lines: &[String]) -> Result<Vec<String>, String> {
    if lines.is_empty() {
        return Ok(vec![]);
    }
    let mut child = Command::new(driver)
        .stdin(Stdio::piped())
        .stdout(Stdio::piped())
        .stderr(Stdio::inherit())
        .spawn()
        .map_err(|e| format!("spawn {driver}: {e}"))?;
    let mut stdin = child.stdin.take().unwrap();
    let data = {
        let mut s = String::new();
        for l in lines {
            s.push_str(l);
            s.push('\n');
        }
        s
    };
    let writer = std::thread::spawn(move || {
        let _ = stdin.write_all(data.as_bytes());
    });
    let out = child.wait_with_output().map_err(|e| e.to_string())?;
    let _ = writer.join();
    let text = String::from_utf8_lossy(&out.stdout);
    let outs: Vec<String> = text.lines().map(str::to_owned).collect();
    if outs.len() != lines.len() {
        return Err(format!(
            "driver returned {} lines for {} inputs (status {:?})",
            outs.len(),
            lines.len(),
            out.status
        ));
    }
    Ok(outs)
}

#[derive(Clone, Copy, PartialEq, Eq, Debug)]
pub enum Mode {
    Quick,
    Thorough,
}

pub struct Ctx {
    pub mode: Mode,
    pub seed: u64,
    pub driver: String,
    pub work: std::path::PathBuf,
    /// seconds one group may use (the property's budget divided by its number of groups)
    pub group_budget_s: u64,
}

/// A correspondence group: one kind of case, defined entirely by a text line that both the
/// implementation runner and the Lean driver understand (so every case replays from its line).
pub trait Group: Sync {
    /// prefix of the driver command(s) this group emits, for reporting
    fn name(&self) -> &'static str;
    /// which properties a failure in this group is attributed to
    fn generate(&self, ctx: &Ctx, rng: &mut Rng) -> Vec<String>;
    /// run the real kvarn code on the case; canonical text; `panic` if it panicked
    fn run_impl(&self, ctx: &Ctx, line: &str) -> String;
    /// the text sent to the model driver for a case (default: the line itself)
    fn driver_line(&self, line: &str) -> String {
        line.to_owned()
    }
    /// the driver text may depend on what the implementation was observed to do (trace validation:
    /// the observed event sequence is replayed in the model). Default: `driver_line`.
    fn driver_line_with(&self, line: &str, _impl_out: &str) -> String {
        self.driver_line(line)
    }
    /// whether the model is expected to predict the implementation's output for this line.
    /// (`false` = explicitly excluded input region: oracle only.)
    fn compare_with_model(&self, _line: &str) -> bool {
        true
    }
    /// Canonicalise model/impl outputs before diffing (default: identity)
    fn canon(&self, out: &str) -> String {
        out.to_owned()
    }
    /// statement-level oracle on the implementation's output: `Some((key, description))` = the property's
    /// own observable statement fails on this input.
    fn oracle(&self, _ctx: &Ctx, _line: &str, _impl_out: &str) -> Option<(String, String)> {
        None
    }
    /// histogram bucket
    fn classify(&self, _line: &str, impl_out: &str) -> String {
        impl_out.split(|c| c == ' ' || c == ':').next().unwrap_or("").chars().take(24).collect()
    }
    fn nontrivial(&self, _line: &str, _impl_out: &str) -> bool {
        true
    }
    /// smaller candidate lines for shrinking a failing line
    fn shrink(&self, _line: &str) -> Vec<String> {
        vec![]
    }
    /// run cases on several threads? (false for groups that use global state / ports / timing)
    fn parallel(&self) -> bool {
        true
    }
    /// the run could not be carried out as planned (timing jitter, port clash): neither compared nor judged
    fn inconclusive(&self, impl_out: &str) -> bool {
        impl_out.starts_with("inconclusive")
    }
    /// the outcome depends on wall-clock timing (real waits, loopback scheduling): a failure is reported only if it
    /// shows again when the same line is run again (up to `RECONFIRM` more times); failures that do not are counted
    /// as `unreproduced` in the evidence. Logic errors reproduce; jitter under load does not.
    fn timing_sensitive(&self) -> bool {
        false
    }
    /// human readable rule for the evidence
    fn rule(&self) -> &'static str;
}

const RECONFIRM: usize = 3;

/// for timing-sensitive groups: does the failure on `line` show again?
fn reconfirm(g: &dyn Group, ctx: &Ctx, line: &str, want_oracle: bool) -> bool {
    if !g.timing_sensitive() {
        return true;
    }
    (0..RECONFIRM).any(|_| still_fails_ex(g, ctx, line, want_oracle, true))
}

#[derive(Default)]
pub struct GroupResult {
    pub name: String,
    pub rule: String,
    pub evaluations: usize,
    pub compared: usize,
    pub distinct_nontrivial: usize,
    pub histogram: BTreeMap<String, usize>,
    pub samples: Vec<serde_json::Value>,
    pub disagreements: Vec<serde_json::Value>,
    pub oracle_failures: Vec<serde_json::Value>,
    /// failures of timing-sensitive groups that did not show again on re-runs
    pub unreproduced: Vec<serde_json::Value>,
    /// generated cases not run because the group's time budget was used up
    pub dropped_by_budget: usize,
    pub max_len: usize,
    pub wall_s: f64,
}

fn run_lines(g: &dyn Group, ctx: &Ctx, lines: &[String]) -> Vec<String> {
    let threads = if g.parallel() { 12 } else { 1 };
    if threads == 1 || lines.len() < 64 {
        return lines.iter().map(|l| guarded(|| g.run_impl(ctx, l))).collect();
    }
    // round-robin so that slow (timed) cases, which generators emit first, spread over the threads
    let mut out: Vec<String> = vec![String::new(); lines.len()];
    std::thread::scope(|s| {
        let hs: Vec<_> = (0..threads)
            .map(|j| s.spawn(move || (j..lines.len()).step_by(threads).map(|i| (i, guarded(|| g.run_impl(ctx, &lines[i])))).collect::<Vec<_>>()))
            .collect();
        for h in hs {
            for (i, o) in h.join().unwrap() {
                out[i] = o;
            }
        }
    });
    out
}

/// does `line` still fail (disagree with the model, or fail the oracle)?
fn still_fails(g: &dyn Group, ctx: &Ctx, line: &str, want_oracle: bool) -> bool {
    still_fails_ex(g, ctx, line, want_oracle, false)
}

/// `same_line`: the line is the one that failed (confirmation run), not a shrinking candidate — a model that cannot
/// interpret it (`bad-op`) is then a disagreement like any other; for a shrinking candidate it means the candidate is
/// not a valid case.
fn still_fails_ex(g: &dyn Group, ctx: &Ctx, line: &str, want_oracle: bool, same_line: bool) -> bool {
    let io = guarded(|| g.run_impl(ctx, line));
    if g.inconclusive(&io) {
        return false;
    }
    if want_oracle {
        return g.oracle(ctx, line, &io).is_some();
    }
    if !g.compare_with_model(line) {
        return false;
    }
    match run_driver(&ctx.driver, &[g.driver_line_with(line, &io)]) {
        Ok(m) => g.canon(&m[0]) != g.canon(&io) && (same_line || m[0] != "bad-op"),
        Err(_) => false,
    }
}

fn shrink_line(g: &dyn Group, ctx: &Ctx, line: &str, want_oracle: bool) -> String {
    let mut cur = line.to_owned();
    let mut budget = 120;
    let t0 = std::time::Instant::now();
    'outer: loop {
        for cand in g.shrink(&cur) {
            if budget == 0 || t0.elapsed().as_secs() > 20 {
                break 'outer;
            }
            budget -= 1;
            if cand.len() < cur.len() && still_fails(g, ctx, &cand, want_oracle) {
                cur = cand;
                continue 'outer;
            }
        }
        break;
    }
    cur
}

/// time budget of one group: cases are processed in chunks (implementation, then model, then comparison); when the
/// budget is used up the remaining generated cases are dropped and counted in `dropped_by_budget` — a run never ends
/// in an external time-out, and what was covered is what the evidence says.
fn group_budget(ctx: &Ctx) -> std::time::Duration {
    let secs = std::env::var("VERIF_GROUP_BUDGET_S").ok().and_then(|s| s.parse().ok()).unwrap_or(ctx.group_budget_s);
    std::time::Duration::from_secs(secs)
}

pub fn run_group(g: &dyn Group, ctx: &Ctx, rng: &mut Rng, corpus: &[String], only: Option<&[String]>) -> GroupResult {
    let t0 = std::time::Instant::now();
    let budget = group_budget(ctx);
    let mut lines: Vec<String> = Vec::new();
    if let Some(only) = only {
        lines.extend(only.iter().cloned());
    } else {
        // minimised past failures first
        let pfx = format!("{}.", g.name());
        lines.extend(corpus.iter().filter(|l| l.starts_with(&pfx) || l.starts_with(g.name())).cloned());
    }
    let mut res = GroupResult { name: g.name().into(), rule: g.rule().into(), ..Default::default() };
    if only.is_none() {
        // generators build their cases with kvarn's own encoders here and there: a panic in one of them is a finding, not a
        // reason for the whole run to end without a result
        match std::panic::catch_unwind(std::panic::AssertUnwindSafe(|| g.generate(ctx, rng))) {
            Ok(l) => lines.extend(l),
            Err(e) => {
                let msg = e.downcast_ref::<String>().cloned().or_else(|| e.downcast_ref::<&str>().map(|s| (*s).to_owned())).unwrap_or_default();
                res.oracle_failures.push(serde_json::json!({"group": g.name(), "line": "<generate>", "impl": "panic", "key": format!("panic:generate:{}", g.name()), "what": format!("kvarn code called while the cases of {} were generated panicked: {msg}", g.name())}));
            }
        }
    }
    let mut distinct = BTreeSet::new();
    // adaptive chunks: start small, grow while a chunk takes less than a few seconds
    let mut chunk = if g.parallel() { 512 } else { 8 };
    let max_chunk = if g.parallel() { 65536 } else { 64 };
    let mut done = 0usize;
    let mut sampled: Vec<(String, String)> = Vec::new();
    while done < lines.len() {
        let tc = std::time::Instant::now();
        let part = &lines[done..(done + chunk).min(lines.len())];
        let impl_out = run_lines(g, ctx, part);
        let cmp_idx: Vec<usize> = (0..part.len()).filter(|i| g.compare_with_model(&part[*i]) && !g.inconclusive(&impl_out[*i])).collect();
        let cmp_lines: Vec<String> = cmp_idx.iter().map(|i| g.driver_line_with(&part[*i], &impl_out[*i])).collect();
        let model_out = match run_driver(&ctx.driver, &cmp_lines) {
            Ok(m) => m,
            Err(e) => {
                res.disagreements.push(serde_json::json!({"line": "<driver>", "impl": "", "model": e}));
                vec![String::from("<driver-error>"); cmp_lines.len()]
            }
        };
        res.evaluations += part.len();
        res.compared += cmp_lines.len();
        for (i, l) in part.iter().enumerate() {
            res.max_len = res.max_len.max(l.len());
            if g.inconclusive(&impl_out[i]) {
                *res.histogram.entry("inconclusive".into()).or_default() += 1;
                continue;
            }
            *res.histogram.entry(g.classify(l, &impl_out[i])).or_default() += 1;
            if g.nontrivial(l, &impl_out[i]) {
                distinct.insert(l.clone());
            }
            if let Some((key, what)) = g.oracle(ctx, l, &impl_out[i]) {
                if !reconfirm(g, ctx, l, true) {
                    res.unreproduced.push(serde_json::json!({"group": g.name(), "line": l, "impl": impl_out[i], "key": key, "what": what}));
                    continue;
                }
                if res.oracle_failures.len() < 3 {
                    let small = shrink_line(g, ctx, l, true);
                    let io = guarded(|| g.run_impl(ctx, &small));
                    let (key, what) = g.oracle(ctx, &small, &io).unwrap_or((key, what));
                    res.oracle_failures.push(serde_json::json!({"group": g.name(), "line": small, "original_line": l, "impl": io, "key": key, "what": what}));
                } else {
                    res.oracle_failures.push(serde_json::json!({"group": g.name(), "line": l, "impl": impl_out[i], "key": key, "what": what}));
                }
            }
        }
        for (j, i) in cmp_idx.iter().enumerate() {
            let (a, b) = (g.canon(&impl_out[*i]), g.canon(&model_out[j]));
            if a != b {
                if !reconfirm(g, ctx, &part[*i], false) {
                    res.unreproduced.push(serde_json::json!({"group": g.name(), "line": part[*i], "impl": a, "model": b}));
                    continue;
                }
                if res.disagreements.len() < 3 {
                    let small = shrink_line(g, ctx, &part[*i], false);
                    let io = guarded(|| g.run_impl(ctx, &small));
                    let mo = run_driver(&ctx.driver, &[g.driver_line_with(&small, &io)]).map(|v| v[0].clone()).unwrap_or_default();
                    res.disagreements.push(serde_json::json!({"group": g.name(), "line": small, "original_line": part[*i], "impl": io, "model": mo}));
                } else {
                    res.disagreements.push(serde_json::json!({"group": g.name(), "line": part[*i], "impl": a, "model": b}));
                }
            }
        }
        // a few samples spread over the run
        if sampled.len() < 4 {
            sampled.push((part[0].clone(), impl_out[0].clone()));
        }
        done += part.len();
        if t0.elapsed() > budget && done < lines.len() {
            res.dropped_by_budget = lines.len() - done;
            break;
        }
        if tc.elapsed().as_secs_f64() < 4.0 && chunk < max_chunk {
            chunk *= 4;
        }
    }
    res.distinct_nontrivial = distinct.len();
    for (l, o) in sampled {
        let trunc = |s: &str| -> String { if s.len() > 400 { format!("{}…({} chars)", &s[..400], s.len()) } else { s.to_owned() } };
        res.samples.push(serde_json::json!({"line": trunc(&l), "impl": trunc(&o)}));
    }
    res.wall_s = t0.elapsed().as_secs_f64();
    res
}

impl GroupResult {
    pub fn to_json(&self) -> serde_json::Value {
        serde_json::json!({
            "group": self.name, "rule": self.rule, "evaluations": self.evaluations, "compared_with_model": self.compared,
            "distinct_nontrivial": self.distinct_nontrivial, "histogram": self.histogram, "samples": self.samples,
            "disagreements": self.disagreements, "oracle_failures": self.oracle_failures, "unreproduced_timing_failures": self.unreproduced, "dropped_by_budget": self.dropped_by_budget, "max_line_len": self.max_len,
            "wall_s": self.wall_s,
        })
    }
}
