import KvarnModel.PresentIter
/-! C16, the iterator over the parsed `!> ` line: its index arithmetic cuts the entries into exactly one item per
extension — name entry and arguments, no entry lost, none shared, no index out of range — for every list of extensions
with any number of arguments. -/
namespace PresentExt
open Rust

/-- the entries of one extension: at least the name entry, all carrying the span `n` of the name -/
def RunOk (n : Nat × Nat) (run : List PEntry) : Prop := run ≠ [] ∧ ∀ e ∈ run, nameOf e = n

/-- consecutive extensions have different name spans (they are different places in the line) -/
def RunsOk : List ((Nat × Nat) × List PEntry) → Prop
  | [] => True
  | [(n, r)] => RunOk n r
  | (n, r) :: (n2, r2) :: rest => RunOk n r ∧ n ≠ n2 ∧ RunsOk ((n2, r2) :: rest)

def flat (runs : List ((Nat × Nat) × List PEntry)) : List PEntry := (runs.map (·.2)).flatten

theorem scan_end (name : Nat × Nat) : ∀ (r : List PEntry) (idx : Nat), (∀ e ∈ r, nameOf e = name) →
    scan name r idx = (idx + r.length, false) := by
  intro r
  induction r with
  | nil => intro idx _; rfl
  | cons a r ih =>
    intro idx h
    have ha : ¬ (nameOf a ≠ name) := by simp [h a (by simp)]
    rw [scan, if_neg ha, ih (idx + 1) (fun e he => h e (by simp [he]))]
    simp only [List.length_cons]; congr 1; omega

theorem scan_diff (name : Nat × Nat) (c : PEntry) (more : List PEntry) (hc : nameOf c ≠ name) :
    ∀ (r : List PEntry) (idx : Nat), (∀ e ∈ r, nameOf e = name) →
    scan name (r ++ c :: more) idx = (idx + r.length + 1, true) := by
  intro r
  induction r with
  | nil => intro idx _; simp [scan, hc]
  | cons a r ih =>
    intro idx h
    have ha : ¬ (nameOf a ≠ name) := by simp [h a (by simp)]
    rw [List.cons_append, scan, if_neg ha, ih (idx + 1) (fun e he => h e (by simp [he]))]
    simp only [List.length_cons]; congr 1; omega

theorem runsOk_tail {n : Nat × Nat} {r : List PEntry} {rest : List ((Nat × Nat) × List PEntry)} (h : RunsOk ((n, r) :: rest)) :
    RunOk n r ∧ RunsOk rest ∧ (∀ c more, flat rest = c :: more → nameOf c ≠ n) := by
  cases rest with
  | nil => exact ⟨h, trivial, by intro c more hf; simp [flat] at hf⟩
  | cons x rest2 =>
    obtain ⟨n2, r2⟩ := x
    obtain ⟨h1, hne, h2⟩ := h
    refine ⟨h1, h2, ?_⟩
    intro c more hf
    have hr2 : RunOk n2 r2 := by
      cases rest2 with
      | nil => exact h2
      | cons _ _ => exact h2.1
    obtain ⟨c2, r2', hr⟩ : ∃ c2 r2', r2 = c2 :: r2' := by
      cases hh : r2 with
      | nil => exact absurd hh hr2.1
      | cons c2 r2' => exact ⟨c2, r2', rfl⟩
    simp only [flat, List.map_cons, List.flatten_cons, hr, List.cons_append, List.cons.injEq] at hf
    rw [← hf.1, hr2.2 c2 (by rw [hr]; simp)]
    exact fun e => hne e.symm

/-- **the iterator yields exactly the extensions' entries**, one item each, starting after any entries already consumed -/
theorem iterAll_from : ∀ (runs : List ((Nat × Nat) × List PEntry)), RunsOk runs → ∀ (pre : List PEntry) (fuel : Nat),
    runs.length ≤ fuel →
    (iterAll (pre ++ flat runs) fuel pre.length).map (itemEntries (pre ++ flat runs)) = runs.map (·.2) := by
  intro runs
  induction runs with
  | nil =>
    intro _ pre fuel _
    cases fuel with
    | zero => rfl
    | succ f => simp [iterAll, iterNext, flat]
  | cons x rest ih =>
    obtain ⟨n, r⟩ := x
    intro hok pre fuel hf
    obtain ⟨hrun, hrest, hnext⟩ := runsOk_tail hok
    obtain ⟨e, r', hr⟩ : ∃ e r', r = e :: r' := by
      cases hh : r with
      | nil => exact absurd hh hrun.1
      | cons e r' => exact ⟨e, r', rfl⟩
    subst hr
    have hne : nameOf e = n := hrun.2 e (by simp)
    have hr' : ∀ x ∈ r', nameOf x = nameOf e := fun x hx => by rw [hne]; exact hrun.2 x (by simp [hx])
    obtain ⟨f, rfl⟩ : ∃ f, fuel = f + 1 := ⟨fuel - 1, by simp only [List.length_cons] at hf; omega⟩
    have hflat : flat ((n, e :: r') :: rest) = e :: (r' ++ flat rest) := by simp [flat]
    have hlen : (pre ++ flat ((n, e :: r') :: rest)).length = pre.length + 1 + r'.length + (flat rest).length := by
      rw [hflat]; simp only [List.length_append, List.length_cons]; omega
    have hget : (pre ++ flat ((n, e :: r') :: rest))[pre.length]? = some e := by
      rw [hflat]; simp
    have hdrop : (pre ++ flat ((n, e :: r') :: rest)).drop (pre.length + 1) = r' ++ flat rest := by
      rw [hflat]
      have : pre ++ e :: (r' ++ flat rest) = (pre ++ [e]) ++ (r' ++ flat rest) := by simp
      rw [this, List.drop_left' (by simp)]
    -- the item and the index after it
    have hitem : iterNext (pre ++ flat ((n, e :: r') :: rest)) pre.length =
        some ((pre.length, r'.length + 1), pre.length + 1 + r'.length) := by
      unfold iterNext
      rw [if_neg (by rw [hlen]; omega), hget]
      simp only [hdrop]
      cases hfr : flat rest with
      | nil =>
        rw [List.append_nil, scan_end (nameOf e) r' pre.length hr']
        rw [hfr] at hlen
        simp only [List.length_nil, Nat.add_zero] at hlen
        have h1 : pre.length + r'.length + 1 = (pre ++ flat ((n, e :: r') :: rest)).length := by rw [hlen]; omega
        have hcond : (decide (pre.length + r'.length + 1 = (pre ++ flat ((n, e :: r') :: rest)).length) && !false) = true := by
          simp [h1]
        simp only [hcond, ↓reduceIte]
        have e1 : pre.length + r'.length + 1 - pre.length = r'.length + 1 := by omega
        have e2 : pre.length + r'.length + 1 = pre.length + 1 + r'.length := by omega
        rw [e1, e2]
      | cons c more =>
        have hc : nameOf c ≠ nameOf e := by rw [hne]; exact hnext c more hfr
        rw [scan_diff (nameOf e) c more hc r' pre.length hr']
        simp only [Bool.not_true, Bool.and_false, Bool.false_eq_true, ↓reduceIte]
        have e1 : pre.length + r'.length + 1 - pre.length = r'.length + 1 := by omega
        have e2 : pre.length + r'.length + 1 = pre.length + 1 + r'.length := by omega
        rw [e1, e2]
    rw [iterAll, hitem]
    simp only [List.map_cons]
    have hpre2 : pre ++ flat ((n, e :: r') :: rest) = (pre ++ e :: r') ++ flat rest := by rw [hflat]; simp
    have hl2 : (pre ++ e :: r').length = pre.length + 1 + r'.length := by simp only [List.length_append, List.length_cons]; omega
    congr 1
    · -- the entries of the item
      unfold itemEntries
      simp only
      rw [hflat, List.drop_left' rfl]
      have : e :: (r' ++ flat rest) = (e :: r') ++ flat rest := by simp
      rw [this, List.take_left' (by simp)]
    · have := ih hrest (pre ++ e :: r') f (by simp only [List.length_cons] at hf; omega)
      rw [hl2] at this
      rw [hpre2]
      exact this

/-- **`PresentExtensionsIter`: one item per extension**, holding exactly its name entry and its arguments -/
theorem iterAll_runs (runs : List ((Nat × Nat) × List PEntry)) (hok : RunsOk runs) :
    (iterAll (flat runs) (flat runs).length 0).map (itemEntries (flat runs)) = runs.map (·.2) := by
  have hl : runs.length ≤ (flat runs).length := by
    induction runs with
    | nil => simp
    | cons x rest ih =>
      obtain ⟨n, r⟩ := x
      obtain ⟨hrun, hrest, _⟩ := runsOk_tail hok
      have := ih hrest
      have hr : 1 ≤ r.length := by
        cases r with
        | nil => exact absurd rfl hrun.1
        | cons _ _ => simp
      simp only [flat, List.map_cons, List.flatten_cons, List.length_append, List.length_cons] at this ⊢
      omega
  have := iterAll_from runs hok [] (flat runs).length hl
  simpa using this

/-! ### every list of entries -/

/-- the maximal runs of adjacent entries with the same name span -/
def splitRuns : List PEntry → List ((Nat × Nat) × List PEntry)
  | [] => []
  | e :: rest =>
    match splitRuns rest with
    | (n, r) :: more => if nameOf e = n then (n, e :: r) :: more else (nameOf e, [e]) :: (n, r) :: more
    | [] => [(nameOf e, [e])]

theorem flat_splitRuns : ∀ (l : List PEntry), flat (splitRuns l) = l := by
  intro l
  induction l with
  | nil => rfl
  | cons e rest ih =>
    unfold splitRuns
    cases hs : splitRuns rest with
    | nil =>
      rw [hs] at ih
      simp only [flat, List.map_nil, List.flatten_nil] at ih
      simp [flat, ← ih]
    | cons x more =>
      obtain ⟨n, r⟩ := x
      rw [hs] at ih
      simp only
      split
      · simp only [flat, List.map_cons, List.flatten_cons, List.cons_append] at ih ⊢
        rw [ih]
      · simp only [flat, List.map_cons, List.flatten_cons, List.cons_append, List.nil_append] at ih ⊢
        rw [ih]

theorem runsOk_splitRuns : ∀ (l : List PEntry), RunsOk (splitRuns l) := by
  intro l
  induction l with
  | nil => trivial
  | cons e rest ih =>
    unfold splitRuns
    cases hs : splitRuns rest with
    | nil => exact ⟨by simp, by intro x hx; simp only [List.mem_singleton] at hx; rw [hx]⟩
    | cons x more =>
      obtain ⟨n, r⟩ := x
      rw [hs] at ih
      obtain ⟨hrun, hmore, _⟩ := runsOk_tail ih
      simp only
      split
      · rename_i hen
        have hnew : RunOk n (e :: r) := ⟨by simp, by
          intro y hy
          simp only [List.mem_cons] at hy
          rcases hy with rfl | hy
          · exact hen
          · exact hrun.2 y hy⟩
        cases more with
        | nil => exact hnew
        | cons y more2 =>
          obtain ⟨n2, r2⟩ := y
          exact ⟨hnew, ih.2.1, ih.2.2⟩
      · rename_i hen
        exact ⟨⟨by simp, by intro y hy; simp only [List.mem_singleton] at hy; rw [hy]⟩, hen, ih⟩

/-- **`PresentExtensionsIter` on any list of entries**: the items are exactly the maximal runs of adjacent entries with the
same name span — every entry in exactly one item, in order; the iterator never indexes out of range and ends. -/
theorem iter_is_runs (exts : List PEntry) :
    (iterAll exts exts.length 0).map (itemEntries exts) = (splitRuns exts).map (·.2) := by
  have := iterAll_runs (splitRuns exts) (runsOk_splitRuns exts)
  rw [flat_splitRuns] at this
  exact this

/-! test: `!> hide &> tmpl a b`: entries of two extensions, the second with two arguments -/
example : (iterAll [⟨3, 4, 3, 4⟩, ⟨11, 4, 11, 4⟩, ⟨11, 4, 16, 1⟩, ⟨11, 4, 18, 1⟩] 4 0) = [(0, 1), (1, 3)] := by decide +kernel

end PresentExt
