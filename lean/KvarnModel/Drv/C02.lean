import KvarnModel.Drv.Util
import KvarnModel.QueryIter
import KvarnModel.QuerySplit
import KvarnModel.UrlCrawl
namespace Drv.C02
open Wire Drv UrlCrawl

/-- the four names the harness asks for: `a`, `b`, the empty name, `é` -/
def queryNames : List Bytes := [[97], [98], [], [0xc3, 0xa9]]

def showOpt (o : Option QuerySplit.Pair) : String :=
  match o with
  | none => "none"
  | some p => hexOfBytes p.2

/-- every accessor of `Query` for one name, in the harness's format -/
def queryField (ps : List QuerySplit.Pair) (name : Bytes) : Option String :=
  match QuerySplit.getAll ps name, QuerySplit.get ps name, QuerySplit.getFirst ps name, QuerySplit.getLast ps name with
  | some all, some get, some first, some last =>
    let vals := fun (l : List QuerySplit.Pair) => ";".intercalate (l.map fun p => hexOfBytes p.2)
    some s!"{hexOfBytes name}:{showOpt get}:{showOpt first}:{showOpt last}:[{vals all}]:[{vals all.reverse}]"
  | _, _, _, _ => none

def handle : List String → Option String
  -- query <hex of the query string | -> : `parse::query`, then get / get_first / get_last / get_all (both directions)
  | ["query", h] => do
    let q ← if h = "-" then some [] else bytesOfHex h
    pure (match QuerySplit.query q with
      | none => "panic"
      | some ps =>
        match queryNames.mapM (queryField ps) with
        | none => "panic"
        | some fs => " ".intercalate fs ++ " d=" ++ hexOfBytes (QuerySplit.display ps))
  -- qiter <pairs before> <pairs of the name> <pairs after> [f,b,…] : QueryPairIter driven from both ends
  | ["qiter", n0, na, nb, ds] => do
    let n0 ← n0.toNat?; let na ← na.toNat?; let nb ← nb.toNat?
    let dirs ← (← parseList ds).mapM fun d => if d = "f" then some QueryIter.Dir.front else if d = "b" then some QueryIter.Dir.back else none
    pure (match QueryIter.drive (List.range (n0 + na + nb)) ⟨n0, n0 + na⟩ dirs with
      | none => "panic"
      | some (f, b, _) => s!"front={listStr (f.map fun i => toString (i - n0))} back={listStr (b.map fun i => toString (i - n0))}")
  -- crawl <html> : the urls `url_crawl::get_urls` yields
  | ["crawl", h] => do
    pure (match getUrls (← bytesOfHex h) with
      | .ok urls => "ok " ++ listStr (urls.map hexOfBytes)
      | .err _ => "err"
      | .panic _ => "panic")
  | _ => none
end Drv.C02
