/-
C08 / C07 / C20 — the bookkeeping of `application::Http1Body` (`bytes`, `offset`, `content_length`, `declared_length`):
`read_to_bytes(max_len)` and `discard_rest(max)`, at the level of byte COUNTS. Which bytes a body consists of is
`Http1.lean`'s business (`body_exact`); this model is about where the connection stands afterwards.

`early` = `bytes.len()`: what arrived together with the head. The client does not pipeline (C08's quantifier: a request
is sent after the previous response was received), so everything the socket holds until the response is written
belongs to this body; `avail` = how many of its bytes the socket delivers in time when asked.
`taken` (ghost) = bytes taken off the socket so far.
-/
namespace BodyAcct

structure St where
  early : Nat
  offset : Nat := 0
  contentLength : Nat
  declared : Nat
  taken : Nat := 0
  deriving Repr, DecidableEq

/-- `Http1Body::new(reader, bytes, content_length)` -/
def new (early declared : Nat) : St := { early := early, contentLength := declared, declared := declared }

/-- what is left of the body for the socket to deliver -/
def rest (s : St) : Nat := s.declared - s.early - s.taken

/-- `read_to_bytes(max_len)`: the new state and the length of what the handler gets. `read_to_end_or_max` reads the
socket until the buffer holds `len` bytes — in reads as large as the buffer has room, so it may take MORE than it was
asked for (the surplus is cut off the result, but it is off the socket): `got` = what the reads took, at least what
was wanted, at most what there is (a value outside that is clamped into it) -/
def readToBytes (s : St) (maxLen got : Nat) : St × Nat :=
  let len := min s.contentLength maxLen
  if len = 0 then (s, 0)
  else if len < s.early then ({ s with offset := len, contentLength := 0 }, len)
  else
    let g := Nat.max (min (len - s.early) (rest s)) (min got (rest s))
    ({ s with offset := s.early + g, contentLength := 0, taken := s.taken + g }, min len (s.early + g))

/-- `discard_rest(max, patience)`: `true` = the connection can be used again -/
def discardRest (s : St) (max avail : Nat) : St × Bool :=
  let left := s.declared - Nat.max s.offset s.early
  if left > max then (s, false)
  else if left ≤ avail then
    ({ s with offset := Nat.max s.offset s.declared, contentLength := 0, taken := s.taken + left }, true)
  else ({ s with taken := s.taken + avail }, false)

/-- the handler's calls: (limit, what the reads took) -/
def reads : St → List (Nat × Nat) → St × List Nat
  | s, [] => (s, [])
  | s, (m, got) :: ms =>
    let (s1, n) := readToBytes s m got
    let (s2, ns) := reads s1 ms
    (s2, n :: ns)

/-- the seeded changes C08-8 (`content_length` for `declared_length`) and C20-8 (`bytes.len()` forgotten) -/
def discardRestC088 (s : St) (max avail : Nat) : St × Bool :=
  let left := s.contentLength - Nat.max s.offset s.early
  if left > max then (s, false)
  else if left ≤ avail then ({ s with taken := s.taken + left }, true) else ({ s with taken := s.taken + avail }, false)
def discardRestC208 (s : St) (max avail : Nat) : St × Bool :=
  let left := s.declared - s.offset
  if left > max then (s, false)
  else if left ≤ avail then ({ s with taken := s.taken + left }, true) else ({ s with taken := s.taken + avail }, false)

end BodyAcct
