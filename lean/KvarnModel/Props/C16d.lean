import KvarnModel.Props.C16c
/-! C16, the `!> ` line with *extra spaces*: any number of additional spaces before every separator — the space between
tokens, ` &> `, the line ending — and after ` &> ` changes nothing: the same tokens are read, attached to the same
extensions (only their positions move). Padding is an empty token to the parser; the one place where it matters is the
look-ahead for ` &> `, which must be done for the padding spaces too (a seeded change that skipped it there parsed
`a x  &> b y` as one extension). -/
namespace PresentExt
open Rust

structure Pad where
  before : Nat := 0
  after : Nat := 0             -- only after ` &> `

def sp (n : Nat) : Bytes := List.replicate n SP

def sepBytes (s : Sep) (p : Pad) : Bytes :=
  match s with
  | .space => sp p.before ++ [SP]
  | .and => sp p.before ++ AND ++ sp p.after
  | .lf => sp p.before ++ [LF]
  | .crlf => sp p.before ++ [CR, LF]

def renderP : List (Bytes × Sep × Pad) → Bytes
  | [] => []
  | (t, s, p) :: rest => t ++ sepBytes s p ++ renderP rest

def unpad (l : List (Bytes × Sep × Pad)) : List (Bytes × Sep) := l.map fun x => (x.1, x.2.1)

/-- the loop at token granularity, with padded separators -/
def specP : List (Bytes × Sep × Pad) → Nat → Option (Nat × Nat) → List PEntry → Option (List PEntry × Nat)
  | [], _, _, _ => none
  | (t, s, pd) :: rest, p, last, es =>
    match s with
    | .space => specP rest (p + t.length + (sepBytes s pd).length) (lastOf last p t.length) (es ++ [entryOf last p t.length])
    | .and => specP rest (p + t.length + (sepBytes s pd).length) none (es ++ [entryOf last p t.length])
    | .lf => some (es ++ [entryOf last p t.length], p + t.length + (sepBytes s pd).length)
    | .crlf => some (es ++ [entryOf last p t.length], p + t.length + (sepBytes s pd).length)

/-! ### padding: empty tokens -/

theorem extract_empty (orig : Bytes) (p : Nat) : extract orig p p = [] := by simp [extract]

/-- a padding space that does not begin ` &> `: nothing is recorded, the next token starts after it -/
theorem pad_one (orig rest : Bytes) (p : Nat) (last : Option (Nat × Nat)) (es : List PEntry)
    (h : startsWith rest [38, 62, 32] = false) :
    pgo orig (SP :: rest) p { start := p, lastName := last, entries := es } =
      pgo orig rest (p + 1) { start := p + 1, lastName := last, entries := es } := by
  rw [pgo, if_neg (by simp), if_pos (.inl rfl)]
  have hand : startsWith (SP :: rest) AND = false := by
    simp only [AND, startsWith, Bool.and_eq_false_iff]; right; exact h
  have hsp : ¬ (SP = LF) := by decide
  simp only [extract_empty, utf8Valid, Nat.sub_self, hand, hsp]
  simp

theorem pad_run (orig : Bytes) : ∀ (n : Nat) (rest : Bytes) (p : Nat) (last : Option (Nat × Nat)) (es : List PEntry),
    (n = 0 ∨ startsWith rest [38, 62, 32] = false) →
    pgo orig (sp n ++ rest) p { start := p, lastName := last, entries := es } =
      pgo orig rest (p + n) { start := p + n, lastName := last, entries := es } := by
  intro n
  induction n with
  | zero => intro rest p last es _; simp [sp]
  | succ n ih =>
    intro rest p last es h
    have hr : startsWith rest [38, 62, 32] = false := by
      rcases h with h | h
      · omega
      · exact h
    have e : sp (n + 1) ++ rest = SP :: (sp n ++ rest) := by simp [sp, List.replicate_succ]
    rw [e, pad_one orig (sp n ++ rest) p last es (by
      cases n with
      | zero => simpa [sp] using hr
      | succ m => simp [sp, List.replicate_succ, startsWith, SP])]
    rw [ih rest (p + 1) last es (.inr hr)]
    have e2 : p + 1 + n = p + (n + 1) := by omega
    rw [e2]

/-- padding that ends in ` &> `: the extension ends here -/
theorem pad_and (orig rest : Bytes) (p : Nat) (last : Option (Nat × Nat)) (es : List PEntry) :
    pgo orig (AND ++ rest) p { start := p, lastName := last, entries := es } =
      pgo orig rest (p + 4) { start := p + 4, lastName := none, entries := es } := by
  show pgo orig (SP :: ([38, 62, 32] ++ rest)) p _ = _
  rw [pgo, if_neg (by simp), if_pos (.inl rfl)]
  have hand : startsWith (SP :: ([38, 62, 32] ++ rest)) AND = true := by simp [AND, startsWith, SP]
  have hsp : ¬ (SP = LF) := by decide
  simp only [extract_empty, utf8Valid, Nat.sub_self, hand, hsp]
  simp only [Bool.not_true, Bool.false_eq_true, ↓reduceIte, Nat.lt_irrefl, false_and]
  rw [pgo_skip orig [38, 62, 32] rest _ _ (by simp)]
  simp only [List.length_cons, List.length_nil]

theorem pad_lf (orig rest : Bytes) (p : Nat) (last : Option (Nat × Nat)) (es : List PEntry) :
    pgo orig (LF :: rest) p { start := p, lastName := last, entries := es } = some (es, p + 1) := by
  rw [pgo, if_neg (by simp), if_pos (.inr (.inr rfl))]
  simp [extract_empty, utf8Valid]

theorem pad_crlf (orig rest : Bytes) (p : Nat) (last : Option (Nat × Nat)) (es : List PEntry) :
    pgo orig (CR :: LF :: rest) p { start := p, lastName := last, entries := es } = some (es, p + 2) := by
  rw [pgo, if_neg (by simp), if_pos (.inr (.inl rfl))]
  have h1 : ¬ (CR = LF) := by decide
  have hand : startsWith (CR :: LF :: rest) AND = false := by simp [AND, startsWith, CR]
  simp only [extract_empty, utf8Valid, Nat.sub_self, hand, h1]
  simp only [Bool.not_true, Bool.false_eq_true, ↓reduceIte, Nat.lt_irrefl, false_and]
  exact pad_lf orig rest (p + 1) last es

/-! ### a token and its padded separator -/

theorem sp_length (n : Nat) : (sp n).length = n := by simp [sp]

/-- after the token and the first byte of its separator (a space): the token is recorded, the name is set -/
theorem token_then_space (pre t more : Bytes) (hok : TokOk t) (last : Option (Nat × Nat)) (es : List PEntry)
    (hna : startsWith more [38, 62, 32] = false) :
    pgo (pre ++ t ++ (SP :: more)) (t ++ (SP :: more)) pre.length { start := pre.length, lastName := last, entries := es } =
      pgo (pre ++ t ++ (SP :: more)) more (pre.length + t.length + 1)
        { start := pre.length + t.length + 1, lastName := lastOf last pre.length t.length, entries := es ++ [entryOf last pre.length t.length] } := by
  have := pgo_item_space pre t more hok last es hna
  simpa using this

/-- the separator after a token, padded: what the loop does with it -/
theorem pgo_itemP (pre t post : Bytes) (hok : TokOk t) (s : Sep) (pd : Pad) (last : Option (Nat × Nat)) (es : List PEntry)
    (hpost : (s = .space ∨ (s = .and ∧ pd.after > 0)) → startsWith post [38, 62, 32] = false) :
    pgo (pre ++ t ++ (sepBytes s pd ++ post)) (t ++ (sepBytes s pd ++ post)) pre.length
        { start := pre.length, lastName := last, entries := es } =
      (match s with
        | .space => pgo (pre ++ t ++ (sepBytes s pd ++ post)) post (pre.length + t.length + (sepBytes s pd).length)
            { start := pre.length + t.length + (sepBytes s pd).length, lastName := lastOf last pre.length t.length,
              entries := es ++ [entryOf last pre.length t.length] }
        | .and => pgo (pre ++ t ++ (sepBytes s pd ++ post)) post (pre.length + t.length + (sepBytes s pd).length)
            { start := pre.length + t.length + (sepBytes s pd).length, lastName := none,
              entries := es ++ [entryOf last pre.length t.length] }
        | .lf => some (es ++ [entryOf last pre.length t.length], pre.length + t.length + (sepBytes s pd).length)
        | .crlf => some (es ++ [entryOf last pre.length t.length], pre.length + t.length + (sepBytes s pd).length)) := by
  obtain ⟨b, a⟩ := pd
  cases b with
  | zero =>
    -- no padding before the separator: the lemmas of `C16c`, then the padding after ` &> `
    cases s with
    | space =>
      have := pgo_item_space pre t post hok last es (hpost (.inl rfl))
      simpa [sepBytes, sp] using this
    | and =>
      have h1 := pgo_item_and pre t (sp a ++ post) hok last es
      simp only [sepBytes, sp, List.replicate_zero, List.nil_append, List.append_assoc] at h1 ⊢
      rw [h1]
      have h2 := pad_run (pre ++ (t ++ (AND ++ (List.replicate a SP ++ post)))) a post (pre.length + t.length + 4) none
        (es ++ [entryOf last pre.length t.length]) (by
          cases a with
          | zero => exact .inl rfl
          | succ a' => exact .inr (hpost (.inr ⟨rfl, by simp⟩)))
      simp only [sp] at h2
      rw [h2]
      simp only [AND, List.length_append, List.length_cons, List.length_nil, List.length_replicate]
      have e : pre.length + t.length + 4 + a = pre.length + t.length + (0 + 1 + 1 + 1 + 1 + a) := by omega
      rw [e]
    | lf =>
      have := pgo_item_lf pre t post hok last es
      simpa [sepBytes, sp] using this
    | crlf =>
      have := pgo_item_crlf pre t post hok last es
      simpa [sepBytes, sp] using this
  | succ n =>
    -- the first padding space ends the token; the others are empty tokens; then the separator proper
    have hx : ∀ (X : Bytes), (∃ c X', X = c :: X' ∧ c ≠ 38) →
        pgo (pre ++ t ++ (SP :: (sp n ++ (X ++ post)))) (t ++ (SP :: (sp n ++ (X ++ post)))) pre.length
            { start := pre.length, lastName := last, entries := es } =
          pgo (pre ++ t ++ (SP :: (sp n ++ (X ++ post)))) (X ++ post) (pre.length + t.length + 1 + n)
            { start := pre.length + t.length + 1 + n, lastName := lastOf last pre.length t.length,
              entries := es ++ [entryOf last pre.length t.length] } := by
      intro X hX
      obtain ⟨c, X', rfl, hc⟩ := hX
      have hXn : startsWith ((c :: X') ++ post) [38, 62, 32] = false := by
        simp only [List.cons_append, startsWith, Bool.and_eq_false_iff]; left; simpa using hc
      rw [token_then_space pre t (sp n ++ ((c :: X') ++ post)) hok last es (by
        cases n with
        | zero => simpa [sp] using hXn
        | succ m => simp [sp, List.replicate_succ, startsWith, SP])]
      rw [pad_run _ n ((c :: X') ++ post) _ _ _ (.inr hXn)]
    have e0 : ∀ (X : Bytes), sp (n + 1) ++ X ++ post = SP :: (sp n ++ (X ++ post)) := by
      intro X; simp [sp, List.replicate_succ, List.append_assoc]
    cases s with
    | space =>
      simp only [sepBytes]
      rw [e0 [SP], hx [SP] ⟨SP, [], rfl, by decide⟩]
      show pgo _ (SP :: post) _ _ = _
      rw [pad_one _ post _ _ _ (hpost (.inl rfl))]
      simp only [List.length_append, sp_length, List.length_cons, List.length_nil]
      have e : pre.length + t.length + 1 + n + 1 = pre.length + t.length + (n + 1 + 1) := by omega
      rw [e]
    | and =>
      simp only [sepBytes]
      have e1 : sp (n + 1) ++ AND ++ sp a ++ post = SP :: (sp n ++ ((AND ++ sp a) ++ post)) := by
        simp [sp, List.replicate_succ, List.append_assoc]
      rw [e1, hx (AND ++ sp a) ⟨SP, [38, 62, 32] ++ sp a, rfl, by decide⟩]
      have e2 : AND ++ sp a ++ post = AND ++ (sp a ++ post) := by simp [List.append_assoc]
      rw [e2, pad_and]
      rw [pad_run _ a post _ _ _ (by
        cases a with
        | zero => exact .inl rfl
        | succ a' => exact .inr (hpost (.inr ⟨rfl, by simp⟩)))]
      simp only [AND, List.length_append, sp_length, List.length_cons, List.length_nil]
      have e : pre.length + t.length + 1 + n + 4 + a = pre.length + t.length + (n + 1 + 4 + a) := by omega
      rw [e]
    | lf =>
      simp only [sepBytes]
      rw [e0 [LF], hx [LF] ⟨LF, [], rfl, by decide⟩]
      show pgo _ (LF :: post) _ _ = _
      rw [pad_lf]
      simp only [List.length_append, sp_length, List.length_cons, List.length_nil]
      have e : pre.length + t.length + 1 + n + 1 = pre.length + t.length + (n + 1 + 1) := by omega
      rw [e]
    | crlf =>
      simp only [sepBytes]
      rw [e0 [CR, LF], hx [CR, LF] ⟨CR, [LF], rfl, by decide⟩]
      show pgo _ (CR :: LF :: post) _ _ = _
      rw [pad_crlf]
      simp only [List.length_append, sp_length, List.length_cons, List.length_nil]
      have e : pre.length + t.length + 1 + n + 2 = pre.length + t.length + (n + 1 + 2) := by omega
      rw [e]

/-! ### the whole line -/

theorem sepBytes_head (s : Sep) (pd : Pad) : ∃ c m', sepBytes s pd = c :: m' ∧ (c = SP ∨ c = CR ∨ c = LF) := by
  obtain ⟨b, a⟩ := pd
  cases b with
  | zero =>
    cases s
    · exact ⟨SP, [], by simp [sepBytes, sp], .inl rfl⟩
    · exact ⟨SP, [38, 62, 32] ++ sp a, by simp [sepBytes, sp, AND, SP], .inl rfl⟩
    · exact ⟨LF, [], by simp [sepBytes, sp], .inr (.inr rfl)⟩
    · exact ⟨CR, [LF], by simp [sepBytes, sp], .inr (.inl rfl)⟩
  | succ n =>
    cases s
    · exact ⟨SP, sp n ++ [SP], by simp [sepBytes, sp, List.replicate_succ], .inl rfl⟩
    · exact ⟨SP, sp n ++ AND ++ sp a, by simp [sepBytes, sp, List.replicate_succ, List.append_assoc], .inl rfl⟩
    · exact ⟨SP, sp n ++ [LF], by simp [sepBytes, sp, List.replicate_succ], .inl rfl⟩
    · exact ⟨SP, sp n ++ [CR, LF], by simp [sepBytes, sp, List.replicate_succ], .inl rfl⟩

theorem unpad_cons (t : Bytes) (s : Sep) (pd : Pad) (rest : List (Bytes × Sep × Pad)) :
    unpad ((t, s, pd) :: rest) = (t, s) :: unpad rest := rfl

/-- **the loop computes the token-level specification** on every well-formed padded line, whatever follows it -/
theorem pgo_itemsP : ∀ (items : List (Bytes × Sep × Pad)), ItemsOk (unpad items) → ∀ (pre content : Bytes)
    (last : Option (Nat × Nat)) (es : List PEntry),
    pgo (pre ++ renderP items ++ content) (renderP items ++ content) pre.length
      { start := pre.length, lastName := last, entries := es } = specP items pre.length last es := by
  intro items
  induction items with
  | nil => intro h; exact absurd h (by simp [ItemsOk, unpad])
  | cons it rest ih =>
    obtain ⟨t, s, pd⟩ := it
    intro hok pre content last es
    have e1 : pre ++ renderP ((t, s, pd) :: rest) ++ content = pre ++ t ++ (sepBytes s pd ++ (renderP rest ++ content)) := by
      simp [renderP, List.append_assoc]
    have e2 : renderP ((t, s, pd) :: rest) ++ content = t ++ (sepBytes s pd ++ (renderP rest ++ content)) := by
      simp [renderP, List.append_assoc]
    cases rest with
    | nil =>
      rw [unpad_cons] at hok
      obtain ⟨htok, heol⟩ := hok
      rw [e1, e2, pgo_itemP pre t (renderP [] ++ content) htok s pd last es (by
        intro h; rcases h with rfl | ⟨rfl, _⟩ <;> simp [Sep.isEol] at heol)]
      cases s with
      | space => simp [Sep.isEol] at heol
      | and => simp [Sep.isEol] at heol
      | lf => simp [specP]
      | crlf => simp [specP]
    | cons r rest2 =>
      obtain ⟨t2, s2, pd2⟩ := r
      rw [unpad_cons, unpad_cons] at hok
      obtain ⟨htok, hne, hrest⟩ := hok
      have hrest' : ItemsOk (unpad ((t2, s2, pd2) :: rest2)) := by rw [unpad_cons]; exact hrest
      have htok2 : TokOk t2 := by
        cases hr : unpad rest2 with
        | nil => rw [hr] at hrest; exact hrest.1
        | cons _ _ => rw [hr] at hrest; exact hrest.1
      obtain ⟨c, m', hm, hc⟩ := sepBytes_head s2 pd2
      have hna : startsWith (renderP ((t2, s2, pd2) :: rest2) ++ content) [38, 62, 32] = false := by
        have : renderP ((t2, s2, pd2) :: rest2) ++ content = t2 ++ (c :: (m' ++ renderP rest2 ++ content)) := by
          simp [renderP, hm, List.append_assoc]
        rw [this]
        exact tok_not_and_prefix t2 _ htok2 c _ rfl hc
      rw [e1, e2, pgo_itemP pre t _ htok s pd last es (fun _ => hna)]
      have e3 : pre ++ t ++ (sepBytes s pd ++ (renderP ((t2, s2, pd2) :: rest2) ++ content)) =
          (pre ++ t ++ sepBytes s pd) ++ renderP ((t2, s2, pd2) :: rest2) ++ content := by simp [List.append_assoc]
      have e4 : (pre ++ t ++ sepBytes s pd).length = pre.length + t.length + (sepBytes s pd).length := by
        simp only [List.length_append]
      cases s with
      | lf => simp [Sep.isEol] at hne
      | crlf => simp [Sep.isEol] at hne
      | space =>
        have h2 := ih hrest' (pre ++ t ++ sepBytes .space pd) content (lastOf last pre.length t.length) (es ++ [entryOf last pre.length t.length])
        rw [e4] at h2
        simp only
        rw [e3, h2]
        simp [specP]
      | and =>
        have h2 := ih hrest' (pre ++ t ++ sepBytes .and pd) content none (es ++ [entryOf last pre.length t.length])
        rw [e4] at h2
        simp only
        rw [e3, h2]
        simp [specP]

theorem renderP_length_cons (t : Bytes) (s : Sep) (pd : Pad) (rest : List (Bytes × Sep × Pad)) :
    (renderP ((t, s, pd) :: rest)).length = t.length + (sepBytes s pd).length + (renderP rest).length := by
  simp only [renderP, List.length_append]

/-- the specification's entries, read back from the data, are the line's tokens with their extension names — the same
as without padding — and the data starts right after the line -/
theorem spec_readsP : ∀ (items : List (Bytes × Sep × Pad)), ItemsOk (unpad items) → ∀ (pre content : Bytes)
    (last : Option (Nat × Nat)) (cur : Option Bytes) (es es' : List PEntry) (ds : Nat),
    (∀ n, last = some n → cur = some (extract (pre ++ renderP items ++ content) n.1 (n.1 + n.2))) →
    (last = none → cur = none) →
    specP items pre.length last es = some (es', ds) →
    ds = pre.length + (renderP items).length ∧
    ∃ new, es' = es ++ new ∧ new.map (readEntry (pre ++ renderP items ++ content)) = tokenReads (unpad items) cur := by
  intro items
  induction items with
  | nil => intro h; exact absurd h (by simp [ItemsOk, unpad])
  | cons it rest ih =>
    obtain ⟨t, s, pd⟩ := it
    intro hok pre content last cur es es' ds hcur hnone h
    generalize hdata : pre ++ renderP ((t, s, pd) :: rest) ++ content = data at hcur ⊢
    have hd : data = pre ++ t ++ (sepBytes s pd ++ renderP rest ++ content) := by
      rw [← hdata]; simp only [renderP, List.append_assoc]
    have hx : extract data pre.length (pre.length + t.length) = t := by rw [hd]; exact extract_at pre t _
    have hread : readEntry data (entryOf last pre.length t.length) = (cur.getD t, t) := by
      cases hl : last with
      | none => simp [entryOf, readEntry, hx, hnone hl]
      | some n => simp [entryOf, readEntry, hx, hcur n hl]
    have hlen := renderP_length_cons t s pd rest
    have e3 : pre ++ t ++ sepBytes s pd ++ renderP rest ++ content = data := by
      rw [hd]; simp only [List.append_assoc]
    have e4 : (pre ++ t ++ sepBytes s pd).length = pre.length + t.length + (sepBytes s pd).length := by
      simp only [List.length_append]
    rw [unpad_cons] at hok ⊢
    cases rest with
    | nil =>
      obtain ⟨_, heol⟩ := hok
      cases s with
      | space => simp [Sep.isEol] at heol
      | and => simp [Sep.isEol] at heol
      | lf =>
        simp only [specP, Option.some.injEq, Prod.mk.injEq] at h
        obtain ⟨rfl, rfl⟩ := h
        refine ⟨?_, [entryOf last pre.length t.length], rfl, ?_⟩
        · rw [hlen]; simp only [renderP, List.length_nil]; omega
        · simp only [List.map_cons, List.map_nil, hread, tokenReads, unpad]
      | crlf =>
        simp only [specP, Option.some.injEq, Prod.mk.injEq] at h
        obtain ⟨rfl, rfl⟩ := h
        refine ⟨?_, [entryOf last pre.length t.length], rfl, ?_⟩
        · rw [hlen]; simp only [renderP, List.length_nil]; omega
        · simp only [List.map_cons, List.map_nil, hread, tokenReads, unpad]
    | cons r rest2 =>
      obtain ⟨t2, s2, pd2⟩ := r
      rw [unpad_cons] at hok
      obtain ⟨_, hne, hrest⟩ := hok
      have hrest' : ItemsOk (unpad ((t2, s2, pd2) :: rest2)) := by rw [unpad_cons]; exact hrest
      cases s with
      | lf => simp [Sep.isEol] at hne
      | crlf => simp [Sep.isEol] at hne
      | space =>
        simp only [specP] at h
        have := ih hrest' (pre ++ t ++ sepBytes .space pd) content (lastOf last pre.length t.length) (some (cur.getD t))
          (es ++ [entryOf last pre.length t.length]) es' ds
          (by
            intro n hn
            rw [e3]
            cases hl : last with
            | none =>
              rw [hl] at hn; simp only [lastOf, Option.some.injEq] at hn; subst hn
              simp [hnone hl, hx]
            | some m =>
              rw [hl] at hn; simp only [lastOf, Option.some.injEq] at hn; subst hn
              simp [hcur m hl])
          (by intro hl; cases hl' : last <;> simp [lastOf, hl'] at hl)
          (by rw [e4]; exact h)
        rw [e3, e4] at this
        obtain ⟨hds, new, hnew, hmap⟩ := this
        refine ⟨?_, entryOf last pre.length t.length :: new, by rw [hnew]; simp, ?_⟩
        · rw [hds, hlen]; omega
        · simp only [List.map_cons, hread, hmap, tokenReads, unpad_cons]
      | and =>
        simp only [specP] at h
        have := ih hrest' (pre ++ t ++ sepBytes .and pd) content none none
          (es ++ [entryOf last pre.length t.length]) es' ds
          (by intro n hn; cases hn) (fun _ => rfl) (by rw [e4]; exact h)
        rw [e3, e4] at this
        obtain ⟨hds, new, hnew, hmap⟩ := this
        refine ⟨?_, entryOf last pre.length t.length :: new, by rw [hnew]; simp, ?_⟩
        · rw [hds, hlen]; omega
        · simp only [List.map_cons, hread, hmap, tokenReads, unpad_cons]

theorem specP_some : ∀ (items : List (Bytes × Sep × Pad)), ItemsOk (unpad items) → ∀ (p : Nat) (last : Option (Nat × Nat))
    (es : List PEntry), ∃ r, specP items p last es = some r := by
  intro items
  induction items with
  | nil => intro h; exact absurd h (by simp [ItemsOk, unpad])
  | cons it rest ih =>
    obtain ⟨t, s, pd⟩ := it
    intro hok p last es
    rw [unpad_cons] at hok
    cases rest with
    | nil =>
      cases s with
      | space => simp [ItemsOk, unpad, Sep.isEol] at hok
      | and => simp [ItemsOk, unpad, Sep.isEol] at hok
      | lf => exact ⟨_, rfl⟩
      | crlf => exact ⟨_, rfl⟩
    | cons r rest2 =>
      obtain ⟨t2, s2, pd2⟩ := r
      rw [unpad_cons] at hok
      obtain ⟨_, hne, hrest⟩ := hok
      have hrest' : ItemsOk (unpad ((t2, s2, pd2) :: rest2)) := by rw [unpad_cons]; exact hrest
      cases s with
      | lf => simp [Sep.isEol] at hne
      | crlf => simp [Sep.isEol] at hne
      | space => simp only [specP]; exact ih hrest' _ _ _
      | and => simp only [specP]; exact ih hrest' _ _ _

/-- **`PresentExtensions::new` on a well-formed `!> ` line with any padding**: it succeeds, the document data starts
right after the line, and the entries — read back from the file — are exactly the line's tokens, each with the name of
its extension: what the unpadded line says. -/
theorem parseRaw_renderP (items : List (Bytes × Sep × Pad)) (hok : ItemsOk (unpad items)) (content : Bytes) :
    ∃ es, parseRaw (PREFIX ++ renderP items ++ content) = some (es, (PREFIX ++ renderP items).length) ∧
      es.map (readEntry (PREFIX ++ renderP items ++ content)) = tokenReads (unpad items) none := by
  obtain ⟨t1, s1, pd1, rest, hit⟩ : ∃ t1 s1 pd1 rest, items = (t1, s1, pd1) :: rest := by
    cases items with
    | nil => exact absurd hok (by simp [ItemsOk, unpad])
    | cons it rest => exact ⟨it.1, it.2.1, it.2.2, rest, rfl⟩
  have htok1 : TokOk t1 := by
    subst hit
    rw [unpad_cons] at hok
    cases hr : unpad rest with
    | nil => rw [hr] at hok; exact hok.1
    | cons _ _ => rw [hr] at hok; exact hok.1
  obtain ⟨c, t1', ht1⟩ : ∃ c t1', t1 = c :: t1' := by
    cases h : t1 with
    | nil => exact absurd h htok1.ne
    | cons c t1' => exact ⟨c, t1', rfl⟩
  have hc : c ≠ SP := (htok1.bytes c (by rw [ht1]; simp)).1
  have hdrop : (PREFIX ++ renderP items ++ content).drop 3 = renderP items ++ content := by
    simp [PREFIX, List.append_assoc]
  have hpre : startsWith (PREFIX ++ renderP items ++ content) PREFIX = true := by
    simp [PREFIX, startsWith]
  have hnand : startsWith (renderP items ++ content) AND = false := by
    subst hit
    simp only [renderP, ht1, List.cons_append, AND, startsWith, Bool.and_eq_false_iff]
    left; simpa [SP] using hc
  unfold parseRaw
  rw [hpre, hdrop, hnand]
  simp only [Bool.not_true, Bool.or_self, Bool.false_eq_true, ↓reduceIte]
  have hp := pgo_itemsP items hok PREFIX content none []
  have h3 : PREFIX.length = 3 := rfl
  rw [h3] at hp
  rw [hp]
  obtain ⟨⟨es', ds⟩, hr⟩ := specP_some items hok 3 none []
  have hs := spec_readsP items hok PREFIX content none none [] es' ds (by intro n h; cases h) (fun _ => rfl) (by rw [h3]; exact hr)
  obtain ⟨hds, new, hnew, hmap⟩ := hs
  refine ⟨es', ?_, ?_⟩
  · rw [hr, hds]; simp [h3]
  · rw [hnew]; simpa using hmap

/-- pad the items of a line: the k-th separator gets the k-th padding (none if the list is too short) -/
def padWith : List (Bytes × Sep) → List Pad → List (Bytes × Sep × Pad)
  | [], _ => []
  | (t, s) :: rest, [] => (t, s, {}) :: padWith rest []
  | (t, s) :: rest, pd :: pds => (t, s, pd) :: padWith rest pds

theorem unpad_padWith : ∀ (items : List (Bytes × Sep)) (pads : List Pad), unpad (padWith items pads) = items := by
  intro items
  induction items with
  | nil => intro pads; rfl
  | cons it rest ih =>
    obtain ⟨t, s⟩ := it
    intro pads
    cases pads with
    | nil => simp only [padWith, unpad_cons, ih]
    | cons pd pds => simp only [padWith, unpad_cons, ih]

/-- **a `!> ` line with extra spaces parses back to its extensions**: for every non-empty list of extensions, either
line ending, every document that follows, and *every amount of extra spaces* before each separator and after each
` &> `, `PresentExtensions::new` succeeds, the document data starts right after the line, and the entries say exactly
what `present_line_render` says of the line without the extra spaces. -/
theorem present_line_render_padded (exts : List Ext) (eol : Sep) (pads : List Pad) (content : Bytes) (hne : exts ≠ [])
    (hok : ∀ e ∈ exts, e.Ok) (heol : eol.isEol = true) :
    ∃ es, parseRaw (PREFIX ++ renderP (padWith (lineItems exts eol) pads) ++ content) =
        some (es, (PREFIX ++ renderP (padWith (lineItems exts eol) pads)).length) ∧
      es.map (readEntry (PREFIX ++ renderP (padWith (lineItems exts eol) pads) ++ content)) =
        exts.flatMap fun e => (e.name, e.name) :: e.args.map fun a => (e.name, a) := by
  have hio : ItemsOk (unpad (padWith (lineItems exts eol) pads)) := by
    rw [unpad_padWith]; exact itemsOk_line exts eol hne hok heol
  obtain ⟨es, h1, h2⟩ := parseRaw_renderP (padWith (lineItems exts eol) pads) hio content
  refine ⟨es, h1, ?_⟩
  rw [h2, unpad_padWith, tokenReads_line exts eol heol]

/-! test: the line of the seeded change, `!> a x  &> b y` LF: two extensions -/
example : (parseRaw (PREFIX ++ renderP (padWith (lineItems [⟨[97], [[120]]⟩, ⟨[98], [[121]]⟩] .lf) [{}, { before := 1 }, {}, {}]))).map
      (fun r => r.1.map (readEntry (PREFIX ++ renderP (padWith (lineItems [⟨[97], [[120]]⟩, ⟨[98], [[121]]⟩] .lf) [{}, { before := 1 }, {}, {}])))) =
    some [([97], [97]), ([97], [120]), ([98], [98]), ([98], [121])] := by decide +kernel

end PresentExt
