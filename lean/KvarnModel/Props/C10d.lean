import KvarnModel.Lemmas.ShutdownWMInv1
import KvarnModel.Lemmas.ShutdownWMInv2
import KvarnModel.Lemmas.ShutdownWMInv3
import KvarnModel.Lemmas.ShutdownWMInv4
/-! C10 under the language's memory model, liveness (second half): internal steps terminate although loads may be
stale. (Own module: the case analysis is the slowest proof of the property; it builds in parallel with C10c.) -/
namespace ShutdownWM

theorem inv_reach' {n : Nat} {s : S} (h : Reach n s) : SInv s := by
  induction h with
  | init => exact inv_init n
  | step a _ he ih =>
    cases a
    · exact inv_connect _ ih he
    · exact inv_callerStore _ ih he
    · exact inv_callerLoad _ ih he
    · exact inv_callerNotify _ ih he
    · exact inv_compRead _ ih he
    · exact inv_compFinish _ ih he
    · exact inv_hookRegister _ ih he
    · exact inv_hookAck _ ih he
    · exact inv_lLoadT _ ih he
    · exact inv_lLoadF _ ih he
    · exact inv_lSetWaker _ ih he
    · exact inv_lRecheckT _ ih he
    · exact inv_lRecheckF _ ih he
    · exact inv_lAcceptTop _ ih he
    · exact inv_lAcceptReg _ ih he
    · exact inv_lCountSpawn _ ih he
    · exact inv_lClose _ ih he
    · exact inv_lUncount _ ih he
    · exact inv_lUncLoad _ ih he
    · exact inv_cFinish _ ih he
    · exact inv_cLoad _ ih he
    · exact inv_lLoadStale _ ih he
    · exact inv_lRecheckStale _ ih he
    · exact inv_lRecheckKT _ ih he
    · exact inv_lRecheckWT _ ih he
    · exact inv_lRecheckWStale _ ih he

def listeners (s : S) : Nat :=
  s.lTop + s.lLf + s.lRechk + s.lRechkK + s.lRechkW + s.lReg + s.lHold + s.lSawS + s.lUnc + s.lUncR2 + s.lClosed

theorem listeners_apply (s : S) (a : Action) (he : enabled s a = true) : listeners (apply s a) = listeners s := by
  obtain ⟨flag, sd, comp, compWait, fin, notified, count, lTop, lLf, lRechk, lRechkK, lRechkW, lReg, lHold, lSawS, lUnc,
    lUncR2, lClosed, cBacklog, cRun, cR1, cDone, kS3, kS4, kEnd, hooksReg, wanted, acked⟩ := s
  cases a <;>
    simp only [enabled, apply, S.callShutdown, S.listenersOpen, listeners, Bool.and_eq_true, decide_eq_true_eq,
      Bool.not_eq_true'] at he ⊢ <;> (try split) <;> (try split) <;> (try dsimp only) <;> omega

theorem wm_listeners_conserved {n : Nat} {s : S} (h : Reach n s) : listeners s = n := by
  induction h with
  | init => simp [listeners, init]
  | step a _ he ih => rw [listeners_apply _ a he, ih]

theorem mul_pred (n k : Nat) (hk : 0 < k) : n * (k - 1) + n = n * k := by
  cases k with
  | zero => omega
  | succ j => simp [Nat.mul_succ]

set_option maxHeartbeats 3200000 in
/-- **internal steps terminate**, stale loads included: a listener whose loads are stale goes round at most once
more (after a `notify` its next registration is ordered after the flag store), so each internal step strictly
decreases the measure -/
theorem wm_measure_decreases {n : Nat} {s : S} (hr : Reach n s) (a : Action) (hint : a.isEnv = false)
    (he : enabled s a = true) : measure n (apply s a) < measure n s := by
  have hl := wm_listeners_conserved hr
  have I := inv_reach' hr
  obtain ⟨i1, i3, i4, i5, i6, i7, i8, i9, i10, i11, i12, i13, i14, i15, i16, i17⟩ := I
  obtain ⟨flag, sd, comp, compWait, fin, notified, count, lTop, lLf, lRechk, lRechkK, lRechkW, lReg, lHold, lSawS, lUnc,
    lUncR2, lClosed, cBacklog, cRun, cR1, cDone, kS3, kS4, kEnd, hooksReg, wanted, acked⟩ := s
  cases a <;> simp only [Action.isEnv] at hint <;> (try cases hint)
  -- callerLoad
  · simp only [enabled, decide_eq_true_eq] at he
    have e1 := mul_pred n kS3 he
    have e2 : n * (kS4 + 1) = n * kS4 + n := Nat.mul_succ n kS4
    simp only [apply, S.callShutdown, measure]
    cases sd <;> cases comp <;> cases compWait <;> (try split) <;> simp_all <;> omega
  -- callerNotify
  · simp only [enabled, decide_eq_true_eq] at he
    have e1 := mul_pred n kS4 he
    simp only [listeners] at hl
    simp only [apply, measure]
    cases sd <;> cases comp <;> cases compWait <;> simp_all <;> omega
  all_goals
    simp only [enabled, apply, S.callShutdown, measure, Bool.and_eq_true, decide_eq_true_eq, Bool.not_eq_true'] at he ⊢
    cases sd <;> cases comp <;> cases compWait <;> cases flag <;> cases notified <;> (try split) <;> (try split) <;>
      (try dsimp only) <;>
      (try simp only [Bool.false_eq_true, ↓reduceIte, false_and, and_false, true_and, and_true] at *) <;> (try omega)

end ShutdownWM
