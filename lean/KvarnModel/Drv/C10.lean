import KvarnModel.Drv.Util
import KvarnModel.Shutdown
namespace Drv.C10
open Wire Drv Shutdown

def actionOf (s : String) : Option Action :=
  [("connect", Action.connect), ("callerStore", .callerStore), ("callerLoad", .callerLoad), ("callerNotify", .callerNotify),
   ("compRead", .compRead), ("compFinish", .compFinish), ("hookRegister", .hookRegister), ("hookAck", .hookAck),
   ("lLoadT", .lLoadT), ("lLoadF", .lLoadF), ("lSetWaker", .lSetWaker), ("lRecheckT", .lRecheckT), ("lRecheckF", .lRecheckF),
   ("lAcceptTop", .lAcceptTop), ("lAcceptReg", .lAcceptReg), ("lCountSpawn", .lCountSpawn), ("lClose", .lClose),
   ("lUncount", .lUncount), ("lUncLoad", .lUncLoad), ("cFinish", .cFinish), ("cLoad", .cLoad)].lookup s

/-- run with the index of the first disabled action reported -/
def runIdx : S → List Action → Nat → Except Nat S
  | s, [], _ => .ok s
  | s, a :: as, i => if enabled s a then runIdx (apply s a) as (i + 1) else .error i

def handle : List String → Option String
  -- obs <listeners> [prefix actions] [remaining actions] : `wait()` resolved after the prefix / at the end, listeners closed, count
  | ["obs", n, pre, rest] => do
    let nl ← n.toNat?
    let a1 ← (← parseList pre).mapM actionOf
    let a2 ← (← parseList rest).mapM actionOf
    pure (match runIdx (init nl) a1 0 with
      | .error i => s!"disabled@{i}"
      | .ok s1 =>
        match runIdx s1 a2 a1.length with
        | .error i => s!"disabled@{i}"
        | .ok s2 => s!"mid={boolStr s1.fin} end={boolStr s2.fin} late={boolStr s2.fin} closed={boolStr (s2.lClosed == nl)} count={s2.count} acked={boolStr (s2.acked ≥ s2.hooksReg)}")
  | _ => none
end Drv.C10
