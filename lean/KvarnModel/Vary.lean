import KvarnModel.Rust
import KvarnModel.BinSearch
/-
C05 — `vary.rs`: the transformed-header tuple of a request, `VariedResponse::{get, get_by_request,
push_response}`, the re-insert in `handle_vary_missing`, and the synthesised `vary` header.
A response variant is identified by a number; transformations are parameters.
-/
namespace Vary
open Rust BinSearch

structure Rule where
  name : Bytes
  transform : Bytes → Bytes
  default : Bytes

abbrev Tuple := List Bytes
abbrev Varied := List (Tuple × Nat)

def visibleAscii (b : UInt8) : Bool := (32 ≤ b && b < 127) || b == 9

/-- `get_headers_for_request`: header present and valid text → transformed value, else the default -/
def tupleOf (rules : List Rule) (hdr : Bytes → Option Bytes) : Tuple :=
  rules.map fun r => match hdr r.name with
    | some v => if v.all visibleAscii then r.transform v else r.default
    | none => r.default

/-- lexicographic order on byte strings / tuples (`Ord` of `Vec<Header>`) -/
def cmpBytes : Bytes → Bytes → Ordering
  | [], [] => .eq
  | [], _ :: _ => .lt
  | _ :: _, [] => .gt
  | a :: as, b :: bs => if a < b then .lt else if b < a then .gt else cmpBytes as bs

def cmpTuple : Tuple → Tuple → Ordering
  | [], [] => .eq
  | [], _ :: _ => .lt
  | _ :: _, [] => .gt
  | a :: as, b :: bs => match cmpBytes a b with
    | .eq => cmpTuple as bs
    | o => o

def tupleAt (v : Varied) (i : Nat) : Tuple := (v.getD i ([], 0)).1

/-- `responses.binary_search_by_key(&other, |pair| &pair.1)` -/
def get (v : Varied) (t : Tuple) : Nat × Bool := search (fun i => cmpTuple (tupleAt v i) t) v.length

/-- `push_response` at the position `get` returned -/
def push (v : Varied) (pos : Nat) (t : Tuple) (r : Nat) : Varied := v.take pos ++ (t, r) :: v.drop pos

/-- one request against a cached page: serve the stored variant, or compute (`compute t`) and insert -/
def serve (compute : Tuple → Nat) (v : Varied) (t : Tuple) : Varied × Nat × Bool :=
  match get v t with
  | (i, true) => (v, (v.getD i ([], 0)).2, false)
  | (pos, false) => (push v pos t (compute t), compute t, true)

def serveAll (compute : Tuple → Nat) : Varied → List Tuple → Varied × List (Nat × Bool)
  | v, [] => (v, [])
  | v, t :: ts =>
    let (v', r, c) := serve compute v t
    let (v'', rs) := serveAll compute v' ts
    (v'', (r, c) :: rs)

/-- `vary::get_header`: `accept-encoding, range` plus every rule header -/
def AE_RANGE : Bytes := "accept-encoding, range".toUTF8.toList
def AE : Bytes := "accept-encoding".toUTF8.toList
def varyHeader (rules : List Rule) (noRange : Bool) : Bytes :=
  (if noRange then AE else AE_RANGE) ++ (rules.map fun r => [44, 32] ++ r.name).flatten

end Vary
