import KvarnModel.Props.C05
/-! C05, second part — **one computation per distinct transformed tuple**: the variant list stays strictly sorted,
the binary search finds every stored tuple, so for every arrival order a request is computed exactly when no earlier
request selected the same tuple. -/
namespace Vary
open Rust BinSearch

/-! ### the order on byte strings and tuples is a strict total order -/

theorem u8_lt_irrefl (a : UInt8) : ¬ a < a := by simp [UInt8.lt_iff_toNat_lt]
theorem u8_lt_trans {a b c : UInt8} (h1 : a < b) (h2 : b < c) : a < c := by
  simp only [UInt8.lt_iff_toNat_lt] at *; omega
theorem u8_lt_asymm {a b : UInt8} (h1 : a < b) : ¬ b < a := by
  simp only [UInt8.lt_iff_toNat_lt] at *; omega
theorem u8_eq_of_not_lt {a b : UInt8} (h1 : ¬ a < b) (h2 : ¬ b < a) : a = b := by
  apply UInt8.toNat_inj.1
  simp only [UInt8.lt_iff_toNat_lt] at *; omega

theorem cmpBytes_refl : ∀ a : Bytes, cmpBytes a a = .eq := by
  intro a
  induction a with
  | nil => rfl
  | cons x xs ih => simp [cmpBytes, u8_lt_irrefl, ih]

theorem cmpBytes_swap : ∀ (a b : Bytes), cmpBytes a b = .lt → cmpBytes b a = .gt := by
  intro a
  induction a with
  | nil => intro b h; cases b <;> simp_all [cmpBytes]
  | cons x xs ih =>
    intro b h
    cases b with
    | nil => simp [cmpBytes] at h
    | cons y ys =>
      simp only [cmpBytes] at h ⊢
      by_cases h1 : x < y
      · simp [u8_lt_asymm h1, h1]
      · rw [if_neg h1] at h
        by_cases h2 : y < x
        · rw [if_pos h2] at h; cases h
        · rw [if_neg h2] at h; rw [if_neg h2, if_neg h1]; exact ih ys h

theorem cmpBytes_swap' : ∀ (a b : Bytes), cmpBytes a b = .gt → cmpBytes b a = .lt := by
  intro a
  induction a with
  | nil => intro b h; cases b <;> simp_all [cmpBytes]
  | cons x xs ih =>
    intro b h
    cases b with
    | nil => simp [cmpBytes]
    | cons y ys =>
      simp only [cmpBytes] at h ⊢
      by_cases h1 : x < y
      · rw [if_pos h1] at h; cases h
      · rw [if_neg h1] at h
        by_cases h2 : y < x
        · simp [h2]
        · rw [if_neg h2] at h; rw [if_neg h2, if_neg h1]; exact ih ys h

theorem cmpBytes_trans : ∀ (a b c : Bytes), cmpBytes a b = .lt → cmpBytes b c = .lt → cmpBytes a c = .lt := by
  intro a
  induction a with
  | nil =>
    intro b c h1 h2
    cases b with
    | nil => simp [cmpBytes] at h1
    | cons y ys => cases c with
      | nil => simp [cmpBytes] at h2
      | cons z zs => simp [cmpBytes]
  | cons x xs ih =>
    intro b c h1 h2
    cases b with
    | nil => simp [cmpBytes] at h1
    | cons y ys =>
      cases c with
      | nil => simp [cmpBytes] at h2
      | cons z zs =>
        simp only [cmpBytes] at h1 h2 ⊢
        by_cases hxy : x < y
        · by_cases hyz : y < z
          · simp [u8_lt_trans hxy hyz]
          · rw [if_neg hyz] at h2
            by_cases hzy : z < y
            · rw [if_pos hzy] at h2; cases h2
            · have : y = z := u8_eq_of_not_lt hyz hzy
              subst this; simp [hxy]
        · rw [if_neg hxy] at h1
          by_cases hyx : y < x
          · rw [if_pos hyx] at h1; cases h1
          · rw [if_neg hyx] at h1
            have : x = y := u8_eq_of_not_lt hxy hyx
            subst this
            by_cases hyz : x < z
            · simp [hyz]
            · rw [if_neg hyz] at h2 ⊢
              by_cases hzy : z < x
              · rw [if_pos hzy] at h2; cases h2
              · rw [if_neg hzy] at h2 ⊢; exact ih ys zs h1 h2

theorem cmpTuple_refl : ∀ a : Tuple, cmpTuple a a = .eq := by
  intro a
  induction a with
  | nil => rfl
  | cons x xs ih => simp [cmpTuple, cmpBytes_refl, ih]

theorem cmpTuple_swap : ∀ (a b : Tuple), cmpTuple a b = .lt → cmpTuple b a = .gt := by
  intro a
  induction a with
  | nil => intro b h; cases b <;> simp_all [cmpTuple]
  | cons x xs ih =>
    intro b h
    cases b with
    | nil => simp [cmpTuple] at h
    | cons y ys =>
      simp only [cmpTuple] at h ⊢
      cases hc : cmpBytes x y with
      | lt => rw [cmpBytes_swap x y hc]
      | gt => rw [hc] at h; cases h
      | eq =>
        rw [hc] at h
        have := cmpBytes_eq x y hc; subst this
        rw [cmpBytes_refl]; exact ih ys h

theorem cmpTuple_swap' : ∀ (a b : Tuple), cmpTuple a b = .gt → cmpTuple b a = .lt := by
  intro a
  induction a with
  | nil => intro b h; cases b <;> simp_all [cmpTuple]
  | cons x xs ih =>
    intro b h
    cases b with
    | nil => simp [cmpTuple]
    | cons y ys =>
      simp only [cmpTuple] at h ⊢
      cases hc : cmpBytes x y with
      | gt => rw [cmpBytes_swap' x y hc]
      | lt => rw [hc] at h; cases h
      | eq =>
        rw [hc] at h
        have := cmpBytes_eq x y hc; subst this
        rw [cmpBytes_refl]; exact ih ys h

theorem cmpTuple_trans : ∀ (a b c : Tuple), cmpTuple a b = .lt → cmpTuple b c = .lt → cmpTuple a c = .lt := by
  intro a
  induction a with
  | nil =>
    intro b c h1 h2
    cases b with
    | nil => simp [cmpTuple] at h1
    | cons y ys => cases c with
      | nil => simp [cmpTuple] at h2
      | cons z zs => simp [cmpTuple]
  | cons x xs ih =>
    intro b c h1 h2
    cases b with
    | nil => simp [cmpTuple] at h1
    | cons y ys =>
      cases c with
      | nil => simp [cmpTuple] at h2
      | cons z zs =>
        simp only [cmpTuple] at h1 h2 ⊢
        cases hxy : cmpBytes x y with
        | gt => rw [hxy] at h1; cases h1
        | lt =>
          cases hyz : cmpBytes y z with
          | gt => rw [hyz] at h2; cases h2
          | lt => rw [cmpBytes_trans x y z hxy hyz]
          | eq => have := cmpBytes_eq y z hyz; subst this; rw [hxy]
        | eq =>
          have := cmpBytes_eq x y hxy; subst this
          rw [hxy] at h1
          cases hyz : cmpBytes x z with
          | gt => rw [hyz] at h2; cases h2
          | lt => rfl
          | eq => rw [hyz] at h2; exact ih ys zs h1 h2

/-! ### the variant list stays strictly sorted; the search finds what is stored -/

/-- strictly ascending tuples (no duplicates) -/
def Sorted (v : Varied) : Prop := List.Pairwise (fun a b => cmpTuple a.1 b.1 = .lt) v

theorem sorted_lt (v : Varied) (hs : Sorted v) (i j : Nat) (hij : i < j) (hj : j < v.length) :
    cmpTuple (tupleAt v i) (tupleAt v j) = .lt := by
  have := List.pairwise_iff_getElem.1 hs i j (by omega) hj hij
  simpa [tupleAt, List.getD_eq_getElem?_getD, List.getElem?_eq_getElem hj, List.getElem?_eq_getElem (show i < v.length by omega)] using this

theorem sorted_mono (v : Varied) (hs : Sorted v) (t : Tuple) : Mono (fun i => cmpTuple (tupleAt v i) t) v.length := by
  intro i j hij hj
  by_cases e : i = j
  · subst e; exact ⟨id, id⟩
  · have hlt := sorted_lt v hs i j (by omega) hj
    constructor
    · intro hg
      -- t < v_i < v_j
      have h1 := cmpTuple_swap' _ _ hg
      exact cmpTuple_swap _ _ (cmpTuple_trans _ _ _ h1 hlt)
    · intro hl
      exact cmpTuple_trans _ _ _ hlt hl

/-- a stored tuple is found -/
theorem get_complete (v : Varied) (hs : Sorted v) (t : Tuple) (i : Nat) (hi : i < v.length) (ht : tupleAt v i = t) :
    ∃ k, get v t = (k, true) := by
  cases hg : get v t with
  | mk p found =>
    cases found with
    | true => exact ⟨p, rfl⟩
    | false =>
      exfalso
      obtain ⟨_, hlow, hhigh⟩ := search_not_found _ _ (sorted_mono v hs t) p hg
      by_cases hip : i < p
      · have := hlow i hip
        simp only [ht, cmpTuple_refl] at this; cases this
      · have := hhigh i (by omega) hi
        simp only [ht, cmpTuple_refl] at this; cases this

theorem tupleAt_mem (v : Varied) (e : Tuple × Nat) (h : e ∈ v) : ∃ i, i < v.length ∧ tupleAt v i = e.1 := by
  obtain ⟨i, hi, he⟩ := List.getElem_of_mem h
  exact ⟨i, hi, by simp [tupleAt, List.getD_eq_getElem?_getD, List.getElem?_eq_getElem hi, he]⟩

/-- inserting at the position the search returned keeps the list strictly sorted -/
theorem push_sorted (v : Varied) (hs : Sorted v) (t : Tuple) (p : Nat) (r : Nat) (hg : get v t = (p, false)) :
    Sorted (push v p t r) := by
  obtain ⟨hp, hlow, hhigh⟩ := search_not_found _ _ (sorted_mono v hs t) p hg
  unfold push Sorted
  rw [List.pairwise_append]
  refine ⟨(List.Pairwise.sublist (List.take_sublist _ _) hs), ?_, ?_⟩
  · rw [List.pairwise_cons]
    refine ⟨?_, (List.Pairwise.sublist (List.drop_sublist _ _) hs)⟩
    intro e he
    obtain ⟨j, hj, hje⟩ := List.getElem_of_mem he
    simp only [List.length_drop] at hj
    rw [List.getElem_drop] at hje
    have := hhigh (p + j) (by omega) (by omega)
    simp only [tupleAt, List.getD_eq_getElem?_getD, List.getElem?_eq_getElem (show p + j < v.length by omega), Option.getD_some, hje] at this
    exact cmpTuple_swap' _ _ this
  · intro a ha b hb
    obtain ⟨i, hi, hia⟩ := List.getElem_of_mem ha
    simp only [List.length_take] at hi
    rw [List.getElem_take] at hia
    have hai := hlow i (by omega)
    simp only [tupleAt, List.getD_eq_getElem?_getD, List.getElem?_eq_getElem (show i < v.length by omega), Option.getD_some, hia] at hai
    simp only [List.mem_cons] at hb
    rcases hb with rfl | hb
    · exact hai
    · obtain ⟨j, hj, hjb⟩ := List.getElem_of_mem hb
      simp only [List.length_drop] at hj
      rw [List.getElem_drop] at hjb
      have := hhigh (p + j) (by omega) (by omega)
      simp only [tupleAt, List.getD_eq_getElem?_getD, List.getElem?_eq_getElem (show p + j < v.length by omega), Option.getD_some, hjb] at this
      exact cmpTuple_trans _ _ _ hai (cmpTuple_swap' _ _ this)

def keys (v : Varied) : List Tuple := v.map (·.1)

/-- one request: computed exactly when its tuple is not stored yet; afterwards it is stored, nothing else changes -/
theorem serve_computes_iff (compute : Tuple → Nat) (v : Varied) (hs : Sorted v) (t : Tuple) :
    ((serve compute v t).2.2 = true ↔ t ∉ keys v) ∧ Sorted (serve compute v t).1 ∧
    (∀ u, u ∈ keys (serve compute v t).1 ↔ u = t ∨ u ∈ keys v) := by
  unfold serve
  cases hg : get v t with
  | mk p found =>
    cases found with
    | true =>
      simp only
      have hsound := get_sound v t p hg
      obtain ⟨hp, _⟩ := search_found _ _ (sorted_mono v hs t) p hg
      have hmem : t ∈ keys v := by
        unfold keys; rw [List.mem_map]
        refine ⟨v[p], List.getElem_mem hp, ?_⟩
        simpa [tupleAt, List.getD_eq_getElem?_getD, List.getElem?_eq_getElem hp] using hsound
      refine ⟨by simp [hmem], hs, ?_⟩
      intro u; constructor
      · exact Or.inr
      · rintro (rfl | h)
        · exact hmem
        · exact h
    | false =>
      simp only
      refine ⟨?_, push_sorted v hs t p _ hg, ?_⟩
      · simp only [true_iff]
        intro hmem
        unfold keys at hmem; rw [List.mem_map] at hmem
        obtain ⟨e, he, het⟩ := hmem
        obtain ⟨i, hi, hie⟩ := tupleAt_mem v e he
        obtain ⟨k, hk⟩ := get_complete v hs t i hi (by rw [hie, het])
        rw [hg] at hk; cases hk
      · intro u
        unfold push keys
        simp only [List.map_append, List.map_cons, List.mem_append, List.mem_cons]
        constructor
        · rintro (h | rfl | h)
          · exact .inr (List.mem_map.2 (by obtain ⟨e, he, hu⟩ := List.mem_map.1 h; exact ⟨e, List.mem_of_mem_take he, hu⟩))
          · exact .inl rfl
          · exact .inr (List.mem_map.2 (by obtain ⟨e, he, hu⟩ := List.mem_map.1 h; exact ⟨e, List.mem_of_mem_drop he, hu⟩))
        · rintro (rfl | h)
          · exact .inr (.inl rfl)
          · obtain ⟨e, he, hu⟩ := List.mem_map.1 h
            rw [← List.take_append_drop p v] at he
            rcases List.mem_append.1 he with h1 | h1
            · exact .inl (List.mem_map.2 ⟨e, h1, hu⟩)
            · exact .inr (.inr (List.mem_map.2 ⟨e, h1, hu⟩))

/-- **one computation per distinct transformed tuple, for every arrival order**: starting from any sorted variant
list (in particular the empty one of a fresh cache entry), the `k`-th request is computed — rather than served from
the stored variants — exactly when neither the list nor an earlier request had its tuple. -/
theorem computed_iff_first (compute : Tuple → Nat) : ∀ (ts : List Tuple) (v : Varied), Sorted v →
    ∀ k (hk : k < ts.length), (((serveAll compute v ts).2.getD k (0, false)).2 = true ↔
      (ts[k] ∉ keys v ∧ ts[k] ∉ ts.take k)) := by
  intro ts
  induction ts with
  | nil => intro v _ k hk; simp at hk
  | cons t ts ih =>
    intro v hs k hk
    obtain ⟨h1, h2, h3⟩ := serve_computes_iff compute v hs t
    simp only [serveAll]
    cases k with
    | zero => simpa using h1
    | succ j =>
      have hj : j < ts.length := by simpa using hk
      have := ih (serve compute v t).1 h2 j hj
      simp only [List.getD_cons_succ, List.getElem_cons_succ, List.take_succ_cons, List.mem_cons, not_or] at this ⊢
      rw [this, h3]
      constructor
      · rintro ⟨ha, hb⟩
        exact ⟨fun h => ha (.inr h), fun h => ha (.inl h), hb⟩
      · rintro ⟨ha, hb, hc⟩
        exact ⟨fun h => h.elim hb ha, hc⟩

/-- in particular, on a fresh entry the number of computations is the number of distinct tuples requested -/
theorem fresh_entry_computations (compute : Tuple → Nat) (ts : List Tuple) (k : Nat) (hk : k < ts.length) :
    ((serveAll compute [] ts).2.getD k (0, false)).2 = true ↔ ts[k] ∉ ts.take k := by
  have := computed_iff_first compute ts [] List.Pairwise.nil k hk
  simpa [keys] using this

/-! tests of the statement on a concrete history: tuples a, b, a, c, b → computed, computed, hit, computed, hit -/
example : (serveAll (fun t => t.length) [] [[[1]], [[2]], [[1]], [[0]], [[2]]]).2.map (·.2) =
    [true, true, false, true, false] := by decide +kernel

end Vary
