import KvarnModel.CtlShutdown
/-! C19 (C10) — **a command that is refused changes nothing**: `shutdown` and `wait` with arguments they do not take
answer `error` and leave the instance as it was — no shutdown under way, no hook registered that nobody will answer —,
so the socket answers the next request. -/
namespace CtlShutdown

theorem shutdown_refused_no_effect (args : List Arg) (i : Inst) (h : (shutdown args i).1 = true) :
    (shutdown args i).2 = i := by
  unfold shutdown at *
  split at h
  · cases h
  · split at h
    · cases h
    · rename_i hne; simp [hne]
  · split <;> rfl

theorem shutdown_accepted_iff (args : List Arg) (i : Inst) :
    (shutdown args i).1 = false ↔ args = [] ∨ args = [NOWAIT] := by
  unfold shutdown
  constructor
  · intro h
    split at h
    · exact Or.inl rfl
    · split at h
      · rename_i ha; exact Or.inr (by rw [ha])
      · cases h
    · split at h <;> cases h
  · rintro (rfl | rfl)
    · rfl
    · simp

theorem wait_refused_no_effect (args : List Arg) (i : Inst) (h : (wait args i).1 = true) : (wait args i).2 = i := by
  unfold wait at *
  split at h
  · cases h
  · rfl

/-- after a refused `shutdown` or `wait` the socket answers the next request -/
theorem refused_then_answered (args args' : List Arg) (i : Inst) (hs : i.shuttingDown = false)
    (p : List Arg → Inst → Bool × Inst) (hp : p = shutdown ∨ p = wait) (h : (p args i).1 = true)
    (q : List Arg → Inst → Bool × Inst) :
    ∃ e rest, (session i [p, q] [args, args']).1 = some true :: some e :: rest := by
  have hi : (p args i).2 = i := by
    rcases hp with rfl | rfl
    · exact shutdown_refused_no_effect args i h
    · exact wait_refused_no_effect args i h
  simp only [session, hs, Bool.false_eq_true, ↓reduceIte]
  cases hpa : p args i with
  | mk e i' =>
    rw [hpa] at h hi
    simp only at h hi
    rw [h, hi]
    simp only [hs, Bool.false_eq_true, ↓reduceIte]
    exact ⟨(q args' i).1, [], rfl⟩

/-- C19-8 (the check behind the call): `shutdown no-wait now` answers `error` — and the instance is shutting down -/
example : (shutdownLate [NOWAIT, "now".toList] {}).1 = true ∧ (shutdownLate [NOWAIT, "now".toList] {}).2.shuttingDown = true ∧
    (shutdown [NOWAIT, "now".toList] {}).2.shuttingDown = false := by decide

/-- C10-2 (`wait x` registers first): a hook nobody answers is left behind -/
example : (waitEarly ["x".toList] {}).2.hooks = 1 ∧ (wait ["x".toList] {}).2.hooks = 0 := by decide

end CtlShutdown
