import KvarnModel.Rust
/-
C14/C13/C05 — `extensions::RuleSet<R>`: `add_mut` (remove the equal pattern, push, sort) and `get` (first match).
A rule is identified by a number.  `sort_unstable_by` may produce *any* sorted permutation: the theorems are
stated for every list that is sorted for the comparator; the executable model uses an insertion sort.
-/
namespace RuleSet
open Rust

abbrev Rules := List (Bytes × Nat)

def STAR : UInt8 := 42
def isWild (p : Bytes) : Bool := p.getLast? == some STAR

/-- the condition inside `get`'s loop -/
def matchesPat (p uri : Bytes) : Bool := p == uri || (isWild p && startsWith uri p.dropLast)

/-- `RuleSet::get` -/
def get : Rules → Bytes → Option Nat
  | [], _ => none
  | (p, r) :: rest, uri => if matchesPat p uri then some r else get rest uri

/-- the comparator of `add_mut`'s sort says `a ≤ b` : exact paths first, then longer patterns first -/
def before (a b : Bytes) : Prop :=
  (isWild a = false ∧ isWild b = true) ∨ (isWild a = isWild b ∧ a.length ≥ b.length)

instance (a b : Bytes) : Decidable (before a b) := by unfold before; infer_instance

def Sorted (l : Rules) : Prop := l.Pairwise (fun x y => before x.1 y.1)
def Unique (l : Rules) : Prop := l.Pairwise (fun x y => x.1 ≠ y.1)

/-- insertion into a sorted list (the executable stand-in for push + `sort_unstable_by`) -/
def insertSorted (x : Bytes × Nat) : Rules → Rules
  | [] => [x]
  | y :: ys => if before x.1 y.1 then x :: y :: ys else y :: insertSorted x ys

/-- `add_mut(path, rule)` -/
def add (l : Rules) (p : Bytes) (r : Nat) : Rules :=
  insertSorted (p, r) (l.filter (fun e => !(e.1 == p)))

def addAll : Rules → List (Bytes × Nat) → Rules
  | l, [] => l
  | l, (p, r) :: rest => addAll (add l p r) rest

end RuleSet
