import KvarnModel.Props.C04b
import KvarnModel.Props.C03
/-! C03 on pages with vary rules: a cache hit returns what recomputation would return — for the request's path, its query
(if the handler said the query matters) *and its class* (the transformed header values the vary rules look at): a variant
stored for one class, query or path is never served for another. -/
namespace CacheV
open Rust Cache

/-- the handlers of a host as a function of the routed path, the (normalised) query and the class -/
abbrev Handlers3 := Bytes → Bytes → Nat → Out

/-- **the cache contract**: the preference is a property of the path; unless it is `QueryMatters` the output does not
depend on the query (it may depend on the class: that is what the vary rules declare) -/
def Honours3 (h : Handlers3) : Prop :=
  ∀ p q q' c c', (h p q c).pref = (h p q' c').pref ∧ ((h p q c).pref ≠ .queryMatters → h p q c = h p q' c)

/-- **coherence**: every variant in an entry was computed for the entry's path (and query, if it matters) and for the
class it is filed under; an entry has at least one variant -/
def VCoh (h : Handlers3) (s : VStore) : Prop :=
  ∀ k e, vget s k = some e → e.variants ≠ [] ∧ ∀ v ∈ e.variants,
    match k with
    | .path p => v.out.pref ≠ .queryMatters ∧ ∃ q, v.out = h p q v.cls
    | .pathQuery p q => v.out.pref = .queryMatters ∧ v.out = h p q v.cls

theorem vcoh_sub {h : Handlers3} {s s' : VStore} (hs : VSub s' s) (hc : VCoh h s) : VCoh h s' :=
  fun k e hk => hc k e (hs k e hk)

theorem vcoh_empty (h : Handlers3) : VCoh h [] := by intro k e hk; simp [vget] at hk

theorem vcoh_put {h : Handlers3} {s : VStore} (k : Key) (e : VEntry) (hc : VCoh h s)
    (he : e.variants ≠ [] ∧ ∀ v ∈ e.variants,
      match k with
      | .path p => v.out.pref ≠ .queryMatters ∧ ∃ q, v.out = h p q v.cls
      | .pathQuery p q => v.out.pref = .queryMatters ∧ v.out = h p q v.cls) : VCoh h (vput s k e) := by
  intro k' e' hk'
  by_cases hk : k' = k
  · subst hk; rw [vget_put_self] at hk'; cases hk'; exact he
  · rw [vget_put_other s k k' e hk] at hk'; exact hc k' e' hk'

/-- the key that answered a lookup is one of the request's two keys -/
theorem vlookup_key (cfg : Cfg) (s : VStore) (now : Nat) (r : Req) (k : Key) (e : VEntry)
    (h : (vlookup cfg s now r).2 = some (k, e)) : k = .pathQuery r.path (normQ r.query) ∨ k = .path r.path := by
  unfold vlookup at h
  split at h
  · cases h
  · generalize vgetFresh s (.pathQuery r.path (normQ r.query)) now = g1 at h
    obtain ⟨s1, o1⟩ := g1
    cases o1 with
    | some e1 => simp only [Option.some.injEq, Prod.mk.injEq] at h; exact .inl h.1.symm
    | none =>
      simp only at h
      generalize vgetFresh s1 (.path r.path) now = g2 at h
      obtain ⟨s2, o2⟩ := g2
      cases o2 with
      | some e2 => simp only [Option.some.injEq, Prod.mk.injEq] at h; exact .inr h.1.symm
      | none => cases h

theorem vmiss_coh (h : Handlers3) (cfg : Cfg) (s : VStore) (now : Nat) (r : Req) (cls : Nat) (hc : VCoh h s) :
    VCoh h (vmiss cfg s now r cls (h r.path (normQ r.query) cls)).1 := by
  unfold vmiss
  split
  · apply vcoh_put _ _ hc
    refine ⟨by simp, ?_⟩
    intro v hv
    simp only [List.mem_singleton] at hv
    subst hv
    by_cases hq : (h r.path (normQ r.query) cls).pref.queryMatters' = true
    · have hk : storeKey r (h r.path (normQ r.query) cls) = .pathQuery r.path (normQ r.query) := by simp [storeKey, hq]
      rw [hk]
      refine ⟨?_, rfl⟩
      cases hp : (h r.path (normQ r.query) cls).pref <;> simp [hp, Pref.queryMatters'] at hq ⊢
    · have hk : storeKey r (h r.path (normQ r.query) cls) = .path r.path := by simp [storeKey, hq]
      rw [hk]
      refine ⟨?_, ⟨_, rfl⟩⟩
      intro hp
      have hp' : (h r.path (normQ r.query) cls).pref = .queryMatters := hp
      simp [hp', Pref.queryMatters'] at hq
  · exact hc

/-- every request keeps the cache coherent — also the one that adds a variant to a cached page -/
theorem vstep_coherent (h : Handlers3) (hh : Honours3 h) (cfg : Cfg) (s : VStore) (now : Nat) (r : Req) (cls : Nat)
    (hc : VCoh h s) : VCoh h (vhandle cfg s now r cls (h r.path (normQ r.query) cls)).1 := by
  unfold vhandle
  generalize hl : vlookup cfg s now r = lk
  obtain ⟨s2, o⟩ := lk
  have hc2 : VCoh h s2 := vcoh_sub (by have := vlookup_sub cfg s now r; rwa [hl] at this) hc
  cases o with
  | none => exact vmiss_coh h cfg s2 now r cls hc2
  | some ke =>
    obtain ⟨k, e⟩ := ke
    obtain ⟨hget, _⟩ := vlookup_some cfg s now r k e (by rw [hl])
    have hkey := vlookup_key cfg s now r k e (by rw [hl])
    obtain ⟨hne, hvs⟩ := hc k e hget
    simp only
    split
    · split
      · exact hc2
      · split
        · exact hc2
        · split
          · -- the new variant joins the entry under the key that answered
            apply vcoh_put _ _ hc2
            refine ⟨by simp, ?_⟩
            intro v hv
            rcases List.mem_append.1 hv with hv | hv
            · exact hvs v hv
            · simp only [List.mem_singleton] at hv
              subst hv
              -- an old variant tells which kind of key this is; the preference is a property of the path
              obtain ⟨v0, r0, hv0⟩ : ∃ v0 r0, e.variants = v0 :: r0 := by
                cases hh0 : e.variants with
                | nil => exact absurd hh0 hne
                | cons v0 r0 => exact ⟨v0, r0, rfl⟩
              have h0 := hvs v0 (by rw [hv0]; simp)
              rcases hkey with rfl | rfl
              · simp only at h0 ⊢
                refine ⟨?_, trivial⟩
                rw [← h0.1, h0.2]
                exact (hh r.path (normQ r.query) (normQ r.query) cls v0.cls).1
              · simp only at h0 ⊢
                obtain ⟨hp0, q0, hq0⟩ := h0
                refine ⟨?_, ⟨_, rfl⟩⟩
                rw [hq0] at hp0
                rw [(hh r.path (normQ r.query) q0 cls v0.cls).1]
                exact hp0
          · exact hc2
    · exact vmiss_coh h cfg s2 now r cls hc2

/-- **a hit equals recomputation, class included**: in a coherent cache, if handlers honour their contract, what a hit
returns is exactly what the handler would return for this request — this path, this query, this class — now. -/
theorem vhit_equals_recompute (h : Handlers3) (hh : Honours3 h) (cfg : Cfg) (s : VStore) (now : Nat) (r : Req) (cls : Nat)
    (o : Out) (hc : VCoh h s) (hit : (vhandle cfg s now r cls (h r.path (normQ r.query) cls)).2 = .hit o) :
    o = h r.path (normQ r.query) cls := by
  -- which entry answered
  unfold vhandle at hit
  generalize hl : vlookup cfg s now r = lk at hit
  obtain ⟨s2, ol⟩ := lk
  have miss_no : ∀ s', (vmiss cfg s' now r cls (h r.path (normQ r.query) cls)).2 ≠ .hit o := by
    intro s'; unfold vmiss; split <;> simp
  cases ol with
  | none => exact absurd hit (miss_no s2)
  | some ke =>
    obtain ⟨k, e⟩ := ke
    obtain ⟨hget, _⟩ := vlookup_some cfg s now r k e (by rw [hl])
    have hkey := vlookup_key cfg s now r k e (by rw [hl])
    obtain ⟨_, hvs⟩ := hc k e hget
    simp only at hit
    split at hit
    · split at hit
      · cases hit
      · split at hit
        · rename_i v hv
          obtain ⟨hm, hcl⟩ := findVariant_some _ _ _ hv
          simp only [Reply.hit.injEq] at hit
          have h0 := hvs v hm
          rcases hkey with rfl | rfl
          · simp only at h0
            rw [← hit, h0.2, hcl]
          · simp only at h0
            obtain ⟨hp, q, hq⟩ := h0
            rw [← hit, hq, hcl]
            rw [hq, hcl] at hp
            exact (hh r.path q (normQ r.query) cls cls).2 hp
        · split at hit <;> cases hit
    · exact absurd hit (miss_no s2)

/-- every history keeps the cache coherent -/
theorem vrun_coherent (h : Handlers3) (hh : Honours3 h) (cfg : Cfg) : ∀ (es : List (Nat × Req × Nat)) (s : VStore),
    VCoh h s → VCoh h (es.foldl (fun st e => (vhandle cfg st e.1 e.2.1 e.2.2 (h e.2.1.path (normQ e.2.1.query) e.2.2)).1) s) := by
  intro es
  induction es with
  | nil => intro s hc; exact hc
  | cons e es ih => intro s hc; exact ih _ (vstep_coherent h hh cfg s e.1 e.2.1 e.2.2 hc)

end CacheV
