import KvarnModel.Drv.Util
import KvarnModel.Registry
import KvarnModel.PresentExt
import KvarnModel.PresentIter
namespace Drv.C16
open Wire Drv Registry

/-- `a:<prio>:<no 0|1>:<tag>` | `r:<prio>` -/
def parseOp (s : String) : Option Op :=
  match s.splitOn ":" with
  | ["a", p, n, t] => do pure (.add (← p.toInt?) (← parseBool n) (← t.toNat?))
  | ["r", p] => do pure (.remove (← p.toInt?))
  | _ => none

def showList (l : RList) : String := listStr (l.map fun e => s!"{e.1}:{e.2}")

def parseOps (s : String) : Option (List Op) := do (← parseList s).mapM parseOp

def showGroup (g : Bytes × List Bytes) : String :=
  hexOfBytes g.1 ++ "(" ++ ";".intercalate (g.2.map hexOfBytes) ++ ")"

def handle : List String → Option String
  | ["ops", _kind, ops] => do
    let os ← parseOps ops
    pure (match run [] os with | some l => showList l | none => "panic")
  | ["present", h] => do
    let d ← bytesOfHex h
    pure (match PresentExt.presentParseIter d with
      | none => "none"
      | some (gs, ds) => s!"ds={ds} {listStr (gs.map showGroup)}")
  -- trace <prime ops> <package ops> <post ops> <prepare: [prio:pred:tag,…]> <single 0|1> <body hex> <internal names [hex,…]> <present_fn: [prio:pred:tag,…]>
  | ["trace", pr, pk, po, pf, single, body, names, pn] => do
    let lpr ← (run [] (← parseOps pr))
    let lpk ← (run [] (← parseOps pk))
    let lpo ← (run [] (← parseOps po))
    -- prepare_fn entries are added in the given order with override semantics
    let fs ← (← parseList pf).mapM fun s => match s.splitOn ":" with
      | [p, b, t] => do pure ((← p.toInt?), (← parseBool b), (← t.toNat?))
      | _ => none
    let lpf ← run [] (fs.map fun (p, _, t) => .add p false t)
    let predOf (t : Nat) : Bool := (fs.find? fun (_, _, t') => t' == t).map (·.2.1) |>.getD false
    let choice := prepareChoice (if single = "1" then some 999 else none) (lpf.map fun e => (e, predOf e.2))
    let b ← bytesOfHex body
    let known ← parseBytesList names
    -- without a Prepare the (missing) file is answered 404 by the host: no `!> ` line
    let present := if choice.isNone then [] else match PresentExt.presentParseIter b with
      | none => []
      | some (gs, _) => (gs.filter fun (g : Bytes × List Bytes) => known.contains g.1).map showGroup
    -- every Prime sees the URI as the earlier ones left it: those with an even tag append `~<tag>` to the query
    let primes := ((runAll lpr).foldl (fun (acc : List String × String) t =>
      (acc.1 ++ [s!"prime{t}@{acc.2}"], if t % 2 == 0 then acc.2 ++ s!"~{t}" else acc.2)) ([], "")).1
    -- predicate-bound Present extensions: every accepting one, in list order, before the named ones
    let ns ← (← parseList pn).mapM fun s => match s.splitOn ":" with
      | [p, b, t] => do pure ((← p.toInt?), (← parseBool b), (← t.toNat?))
      | _ => none
    let lpn ← run [] (ns.map fun (p, _, t) => .add p false t)
    let predN (t : Nat) : Bool := (ns.find? fun (_, _, t') => t' == t).map (·.2.1) |>.getD false
    -- (they see every response that passes `resolve_present`, the host's 404 for a missing file included)
    let pfns := presentFns (lpn.map fun e => (e, predN e.2))
    let tr := primes ++ [s!"prepare{optStr toString choice}"] ++ pfns.map (fun t => s!"presentfn{t}") ++
      present.map (fun s => s!"present:{s}") ++ (runAll lpk).map (fun t => s!"package{t}") ++
      (runAll lpo).map (fun t => s!"post{t}")
    pure (listStr tr)
  | _ => none
end Drv.C16
