/-
C10 — `shutdown::Manager` and the accept loop as a counter-abstracted transition system (DESIGN §4 C10,
appendix A.4). Threads are counted per program counter, so the theorems hold for any number of listeners,
connections, `shutdown()` callers and pre-shutdown hooks. Each action is one atomic operation of the code
(an atomic load/store/RMW, one mutex section, one `accept()` resolution); executions are all interleavings.

Repaired protocol (fix commits 9b092f5, 7d17cc4): (i) the count is released by a drop guard (panic = normal
return); (ii) every listener holds one count from bind until it has observed the flag and closed; (iii) a
connection is counted by the listener *before* its task is spawned; (iv) the accept poll re-loads the flag
after `set_waker`.
-/
namespace Shutdown

structure S where
  flag : Bool := false          -- `shutdown` (AtomicBool)
  sd : Bool := false            -- `shutting_down` (swap in `_shutdown`)
  comp : Bool := false          -- completion task spawned, has not yet read the hook count
  compWait : Bool := false      -- completion task waits for hook acknowledgements
  fin : Bool := false           -- `finished_channel` sent: `wait()` resolves
  count : Int                   -- `connections`
  -- listeners, by program counter
  lTop : Nat                    -- at the top of the accept poll / loop
  lLf : Nat := 0                -- loaded flag = false, before `set_waker`
  lRechk : Nat := 0             -- waker set, before the re-check of the flag
  lReg : Nat := 0               -- registered and pending on `listener.accept()`
  lHold : Nat := 0              -- `accept()` returned a stream, not yet counted/spawned
  lSawS : Nat := 0              -- observed the flag: about to drop the listening socket
  lUnc : Nat := 0               -- socket closed, guard not yet dropped (`fetch_sub` pending)
  lUncR2 : Nat := 0             -- guard: after `fetch_sub` returned ≤ 0, before the flag load
  lClosed : Nat := 0
  -- connections
  cBacklog : Nat := 0           -- connected by a client, not yet accepted
  cRun : Nat := 0               -- counted and running (handler in progress)
  cR1 : Nat := 0                -- guard: after `fetch_sub` returned ≤ 0, before the flag load
  cDone : Nat := 0
  -- `shutdown()` callers
  kS3 : Nat := 0                -- stored the flag, before the count load
  kS4 : Nat := 0                -- after the count check, before `notify`
  kEnd : Nat := 0
  -- pre-shutdown hooks
  hooksReg : Nat := 0           -- `wait_for_pre_shutdown` registrations
  wanted : Nat := 0             -- the count the completion task read
  acked : Nat := 0              -- confirmations received
  deriving Repr

/-- `_shutdown()`: idempotent spawn of the completion task. -/
def S.callShutdown (s : S) : S := if s.sd then s else { s with sd := true, comp := true }

def S.listenersOpen (s : S) : Nat := s.lTop + s.lLf + s.lRechk + s.lReg + s.lHold + s.lSawS

inductive Action
  | connect | callerStore | callerLoad | callerNotify | compRead | compFinish | hookRegister | hookAck
  | lLoadT | lLoadF | lSetWaker | lRecheckT | lRecheckF | lAcceptTop | lAcceptReg | lCountSpawn
  | lClose | lUncount | lUncLoad | cFinish | cLoad
  deriving DecidableEq, Repr

/-- is the action enabled? -/
def enabled (s : S) : Action → Bool
  | .connect => s.listenersOpen > 0            -- a client can only connect while some listening socket is open
  | .callerStore => true
  | .callerLoad => s.kS3 > 0
  | .callerNotify => s.kS4 > 0
  | .compRead => s.comp
  | .compFinish => s.compWait && s.acked ≥ s.wanted
  | .hookRegister => !s.comp && !s.compWait && !s.fin
  | .hookAck => s.compWait && s.acked < s.wanted
  | .lLoadT => s.lTop > 0 && s.flag
  | .lLoadF => s.lTop > 0 && !s.flag
  | .lSetWaker => s.lLf > 0
  | .lRecheckT => s.lRechk > 0 && s.flag
  | .lRecheckF => s.lRechk > 0 && !s.flag
  | .lAcceptTop => s.lTop > 0 && s.cBacklog > 0
  | .lAcceptReg => s.lReg > 0 && s.cBacklog > 0
  | .lCountSpawn => s.lHold > 0
  | .lClose => s.lSawS > 0
  | .lUncount => s.lUnc > 0
  | .lUncLoad => s.lUncR2 > 0
  | .cFinish => s.cRun > 0
  | .cLoad => s.cR1 > 0

/-- the successor state of an (enabled) action -/
def apply (s : S) : Action → S
  | .connect => { s with cBacklog := s.cBacklog + 1 }
  | .callerStore => { s with flag := true, kS3 := s.kS3 + 1 }
  | .callerLoad =>
    let s' := { s with kS3 := s.kS3 - 1, kS4 := s.kS4 + 1 }
    if s.count ≤ 0 then s'.callShutdown else s'
  | .callerNotify => { s with kS4 := s.kS4 - 1, kEnd := s.kEnd + 1, lTop := s.lTop + s.lReg, lReg := 0 }
  | .compRead => { s with comp := false, compWait := true, wanted := s.hooksReg }
  | .compFinish => { s with compWait := false, fin := true }
  | .hookRegister => { s with hooksReg := s.hooksReg + 1 }
  | .hookAck => { s with acked := s.acked + 1 }
  | .lLoadT => { s with lTop := s.lTop - 1, lSawS := s.lSawS + 1 }
  | .lLoadF => { s with lTop := s.lTop - 1, lLf := s.lLf + 1 }
  | .lSetWaker => { s with lLf := s.lLf - 1, lRechk := s.lRechk + 1 }
  | .lRecheckT => { s with lRechk := s.lRechk - 1, lSawS := s.lSawS + 1 }
  | .lRecheckF => { s with lRechk := s.lRechk - 1, lReg := s.lReg + 1 }
  | .lAcceptTop => { s with lTop := s.lTop - 1, lHold := s.lHold + 1, cBacklog := s.cBacklog - 1 }
  | .lAcceptReg => { s with lReg := s.lReg - 1, lHold := s.lHold + 1, cBacklog := s.cBacklog - 1 }
  | .lCountSpawn => { s with lHold := s.lHold - 1, lTop := s.lTop + 1, cRun := s.cRun + 1, count := s.count + 1 }
  | .lClose => { s with lSawS := s.lSawS - 1, lUnc := s.lUnc + 1 }
  | .lUncount =>
    if s.count - 1 ≤ 0 then { s with lUnc := s.lUnc - 1, lUncR2 := s.lUncR2 + 1, count := s.count - 1 }
    else { s with lUnc := s.lUnc - 1, lClosed := s.lClosed + 1, count := s.count - 1 }
  | .lUncLoad =>
    let s' := { s with lUncR2 := s.lUncR2 - 1, lClosed := s.lClosed + 1 }
    if s.flag then s'.callShutdown else s'
  | .cFinish =>      -- normal return or panic: the guard uncounts either way
    if s.count - 1 ≤ 0 then { s with cRun := s.cRun - 1, cR1 := s.cR1 + 1, count := s.count - 1 }
    else { s with cRun := s.cRun - 1, cDone := s.cDone + 1, count := s.count - 1 }
  | .cLoad =>
    let s' := { s with cR1 := s.cR1 - 1, cDone := s.cDone + 1 }
    if s.flag then s'.callShutdown else s'

/-- `n` listeners bound, each holding one count -/
def init (n : Nat) : S := { count := n, lTop := n }

inductive Reach (n : Nat) : S → Prop
  | init : Reach n (init n)
  | step {s : S} (a : Action) : Reach n s → enabled s a = true → Reach n (apply s a)

/-- run a schedule; `none` if some action is not enabled -/
def run : S → List Action → Option S
  | s, [] => some s
  | s, a :: as => if enabled s a then run (apply s a) as else none

/-- environment actions: clients, handlers finishing, somebody calling `shutdown()`, hooks -/
def Action.isEnv : Action → Bool
  | .connect | .callerStore | .hookRegister | .hookAck | .cFinish => true
  | _ => false

end Shutdown

namespace Shutdown
/-- a natural number that every *internal* step strictly decreases (`n` = number of listeners): so internal
activity always dies out between environment events -/
def measure (n : Nat) (s : S) : Nat :=
  8 * s.lHold + 7 * s.lTop + 6 * s.lLf + 5 * s.lRechk + 4 * s.lReg + 3 * s.lSawS + 2 * s.lUnc + s.lUncR2 +
  5 * s.cBacklog + s.cR1 + (3 * (n * s.kS4) + s.kS4) + (3 * (n * s.kS3) + 4 * s.kS3) +
  (if s.sd then 0 else 3) + (if s.comp then 2 else 0) + (if s.compWait then 1 else 0)
end Shutdown
