import KvarnModel.Vary
/-! C05 — vary: a stored variant is only served to requests that select it. Property theorems. -/
namespace Vary
open Rust BinSearch

theorem cmpBytes_eq : ∀ (a b : Bytes), cmpBytes a b = .eq → a = b := by
  intro a
  induction a with
  | nil => intro b h; cases b <;> simp_all [cmpBytes]
  | cons x xs ih =>
    intro b h
    cases b with
    | nil => simp [cmpBytes] at h
    | cons y ys =>
      simp only [cmpBytes] at h
      split at h
      · cases h
      · split at h
        · cases h
        · rename_i h1 h2
          have : x = y := by
            have a := UInt8.not_lt.1 h1; have b := UInt8.not_lt.1 h2
            exact UInt8.le_antisymm b a
          rw [this, ih ys h]

theorem cmpTuple_eq : ∀ (a b : Tuple), cmpTuple a b = .eq → a = b := by
  intro a
  induction a with
  | nil => intro b h; cases b <;> simp_all [cmpTuple]
  | cons x xs ih =>
    intro b h
    cases b with
    | nil => simp [cmpTuple] at h
    | cons y ys =>
      simp only [cmpTuple] at h
      cases hc : cmpBytes x y with
      | eq => rw [hc] at h; rw [cmpBytes_eq x y hc, ih ys h]
      | lt => rw [hc] at h; cases h
      | gt => rw [hc] at h; cases h

/-- **get is sound for any list state** (sorted or not, whatever concurrent inserts did to it): the variant
found is stored under exactly the request's transformed tuple. -/
theorem get_sound (v : Varied) (t : Tuple) (i : Nat) (h : get v t = (i, true)) : tupleAt v i = t :=
  cmpTuple_eq _ _ (search_found_sound _ _ i h)

/-- every stored variant is the one computed for its own tuple -/
def Own (compute : Tuple → Nat) (v : Varied) : Prop := ∀ e ∈ v, e.2 = compute e.1

theorem push_own (compute : Tuple → Nat) (v : Varied) (pos : Nat) (t : Tuple) (h : Own compute v) :
    Own compute (push v pos t (compute t)) := by
  intro e he
  unfold push at he
  simp only [List.mem_append, List.mem_cons] at he
  rcases he with he | rfl | he
  · exact h e (List.mem_of_mem_take he)
  · rfl
  · exact h e (List.mem_of_mem_drop he)

/-- **a stored variant is only served to requests that select it**: whatever the state of the variant list
(any history, any insertion positions), the reply to a request is the response computed for *its own*
transformed tuple. -/
theorem served_is_own_variant (compute : Tuple → Nat) (v : Varied) (t : Tuple) (h : Own compute v) :
    (serve compute v t).2.1 = compute t ∧ Own compute (serve compute v t).1 := by
  unfold serve
  cases hg : get v t with
  | mk i found =>
    cases found with
    | true =>
      have hs := get_sound v t i hg
      have hlt : i < v.length := by
        unfold get search at hg
        split at hg
        · cases hg
        · -- found implies a non-empty list and an index inside it
          by_cases hi : i < v.length
          · exact hi
          · exfalso
            -- outside the list `tupleAt` is the empty tuple with response 0; soundness still gives `t = []`,
            -- but the search never returns an index ≥ length: bsLoop stays below `n`
            have : ∀ f fuel size base n, 0 < size → base + size ≤ n → bsLoop f fuel size base < n := by
              intro f fuel
              induction fuel with
              | zero => intro size base n h1 h2; simp [bsLoop]; omega
              | succ k ih =>
                intro size base n h1 h2
                unfold bsLoop
                split
                · simp only
                  split
                  · exact ih _ _ _ (by omega) (by omega)
                  · exact ih _ _ _ (by omega) (by omega)
                · omega
            have hb := this (fun i => cmpTuple (tupleAt v i) t) v.length v.length 0 v.length (by omega) (by omega)
            simp only at hg
            split at hg
            · simp only [Prod.mk.injEq, and_true] at hg; omega
            · cases hg
            · cases hg
      simp only
      refine ⟨?_, h⟩
      have hm : v.getD i ([], 0) ∈ v := by
        rw [List.getD_eq_getElem?_getD, List.getElem?_eq_getElem hlt]; simp
      have := h _ hm
      rw [this]
      unfold tupleAt at hs; rw [hs]
    | false => exact ⟨rfl, push_own compute v i t h⟩

/-- for **every arrival order** of any requests: each reply is the response for the request's own tuple -/
theorem all_served_own (compute : Tuple → Nat) : ∀ (ts : List Tuple) (v : Varied), Own compute v →
    (serveAll compute v ts).2.map (·.1) = ts.map compute := by
  intro ts
  induction ts with
  | nil => intro v _; rfl
  | cons t ts ih =>
    intro v h
    obtain ⟨a, b⟩ := served_is_own_variant compute v t h
    simp only [serveAll, List.map_cons]
    rw [a, ih _ b]

/-- the tuple a request selects: a function of the transformed values only — two header values in the same
class select the same variant, absent or non-text headers select the default's variant -/
theorem tuple_default (rules : List Rule) (hdr : Bytes → Option Bytes)
    (h : ∀ r ∈ rules, hdr r.name = none ∨ ∃ v, hdr r.name = some v ∧ v.all visibleAscii = false) :
    tupleOf rules hdr = rules.map (·.default) := by
  unfold tupleOf
  apply List.map_congr_left
  intro r hr
  rcases h r hr with h | ⟨v, h1, h2⟩
  · simp [h]
  · simp [h1, h2]

theorem tuple_same_class (rules : List Rule) (hdr hdr' : Bytes → Option Bytes)
    (h : ∀ r ∈ rules, ∃ v v', hdr r.name = some v ∧ hdr' r.name = some v' ∧ v.all visibleAscii = true ∧
      v'.all visibleAscii = true ∧ r.transform v = r.transform v') :
    tupleOf rules hdr = tupleOf rules hdr' := by
  unfold tupleOf
  apply List.map_congr_left
  intro r hr
  obtain ⟨v, v', a, b, c, d, e⟩ := h r hr
  simp [a, b, c, d, e]

/-- **the vary header**: `accept-encoding, range` followed by each rule header, in rule order -/
theorem vary_header_spec (rules : List Rule) :
    varyHeader rules false = AE_RANGE ++ (rules.map fun r => [44, 32] ++ r.name).flatten := by
  simp [varyHeader]

/-! concrete witnesses (tests) -/
example : (serveAll (fun t => t.length + 10 * (t.headD []).length) []
    [[[1]], [[1, 2]], [[1]], [[0]], [[1, 2]]]).2 = [(11, true), (21, true), (11, false), (11, true), (21, false)] := by
  decide +kernel

end Vary
