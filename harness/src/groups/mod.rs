pub mod c19;
