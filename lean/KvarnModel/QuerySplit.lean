import KvarnModel.Rust
import KvarnModel.BinSearch
import KvarnModel.Vary
import KvarnModel.Sanitize
import KvarnModel.QueryIter
/-
C02 — `utils::parse::query` (the splitting of a query string into pairs), `Query::insert` (binary search by name,
then `iterate_to_last`), `index_of`, `iterate_to_first`, `iterate_to_last` and the bounds `QueryPairIter::ensure_bounds`
computes for `get_all(name)`. The string is a byte list: `=` and `&` are ASCII, so every position the code slices at
(`str::get`) is a character boundary and `get` answers `None` only for `start > end` or `end > len`.
A panic (slice index, `Vec::insert` past the end) is the value `none`.
-/
namespace QuerySplit
open Rust BinSearch

def EQ : UInt8 := 61
def AMP : UInt8 := 38

abbrev Pair := Bytes × Bytes

def nameAt (ps : List Pair) (i : Nat) : Bytes := (ps.getD i ([], [])).1

/-- `index_of`: `pairs.binary_search_by(|probe| probe.name().cmp(name))` -/
def indexOf (ps : List Pair) (name : Bytes) : Nat × Bool :=
  search (fun i => Vary.cmpBytes (nameAt ps i) name) ps.length

/-- `iterate_to_last(name, index)`; `&self.pairs[index..]` panics when `index > len` -/
def iterToLast (ps : List Pair) (name : Bytes) (index : Nat) : Option Nat :=
  if index ≤ ps.length then some (index + ((ps.drop index).takeWhile (fun p => p.1 == name)).length) else none

/-- `iterate_to_first(name, index)`; `&self.pairs[..index]` panics when `index > len` -/
def iterToFirst (ps : List Pair) (name : Bytes) (index : Nat) : Option Nat :=
  if index ≤ ps.length then some (index - ((ps.take index).reverse.takeWhile (fun p => p.1 == name)).length) else none

/-- `Query::insert`; `Vec::insert(pos, _)` panics when `pos > len` -/
def insert (ps : List Pair) (name value : Bytes) : Option (List Pair) :=
  match iterToLast ps name (indexOf ps name).1 with
  | none => none
  | some pos => if pos ≤ ps.length then some (ps.take pos ++ (name, value) :: ps.drop pos) else none

structure St where
  pairStart : Nat
  valueStart : Nat
  pairs : List Pair
  deriving Repr, DecidableEq

/-- what the `'&'` arm and the block after the loop do with the pair that ends at `position` -/
def flush (q : Bytes) (st : St) (position : Nat) : Option (List Pair) :=
  match sliceGet q st.pairStart (st.valueStart - 1), sliceGet q st.valueStart position with
  | some k, some v =>
    if k.isEmpty then some st.pairs
    else insert st.pairs (Sanitize.percentDecode k) (Sanitize.percentDecode v)
  | _, _ => some st.pairs

/-- one round of `for (position, byte) in query.char_indices()` (a non-ASCII character changes nothing) -/
def step (q : Bytes) (st : St) (position : Nat) (b : UInt8) : Option St :=
  if b = EQ then some ⟨st.pairStart, position + 1, st.pairs⟩
  else if b = AMP then
    match flush q st position with
    | none => none
    | some ps => some ⟨position + 1, st.valueStart, ps⟩
  else some st

def go (q : Bytes) : St → Nat → Bytes → Option St
  | st, _, [] => some st
  | st, pos, b :: rest =>
    match step q st pos b with
    | none => none
    | some st' => go q st' (pos + 1) rest

/-- `parse::query` -/
def query (q : Bytes) : Option (List Pair) :=
  match go q ⟨0, 0, []⟩ 0 q with
  | none => none
  | some st => flush q st q.length

/-- `impl Display for Query`: `name=value` joined with `&` (the stored, i.e. decoded, halves as they are) -/
def display : List Pair → Bytes
  | [] => []
  | [p] => p.1 ++ EQ :: p.2
  | p :: p' :: ps => p.1 ++ EQ :: p.2 ++ AMP :: display (p' :: ps)

/-- `QueryPairIter::ensure_bounds` on a fresh iterator: the range `get_all(name)` walks -/
def bounds (ps : List Pair) (name : Bytes) : Option QueryIter.It :=
  match indexOf ps name with
  | (i, true) =>
    match iterToFirst ps name i, iterToLast ps name i with
    | some f, some e => some ⟨f, e⟩
    | _, _ => none
  | (_, false) => some ⟨0, 0⟩

/-- the pairs `get_all(name)` yields from the front -/
def getAll (ps : List Pair) (name : Bytes) : Option (List Pair) :=
  (bounds ps name).map (QueryIter.slice ps)

/-- `get_first`, `get_last`, `get` (the value only if the name occurs exactly once): `none` = a panic -/
def getFirst (ps : List Pair) (name : Bytes) : Option (Option Pair) := (getAll ps name).map List.head?
def getLast (ps : List Pair) (name : Bytes) : Option (Option Pair) := (getAll ps name).map List.getLast?
def get (ps : List Pair) (name : Bytes) : Option (Option Pair) :=
  (getAll ps name).map fun l => if l.length = 1 then l.head? else none

end QuerySplit
