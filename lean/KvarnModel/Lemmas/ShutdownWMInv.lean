import KvarnModel.ShutdownWM
/-! inductive invariant of the shutdown protocol with stale flag loads (one preservation lemma per action) -/
namespace ShutdownWM

structure SInv (s : S) : Prop where
  i1 : s.count = (s.lTop + s.lLf + s.lRechk + s.lRechkK + s.lRechkW + s.lReg + s.lHold + s.lSawS + s.lUnc : Nat) + (s.cRun : Nat)
  i3 : 0 < s.cR1 + s.lUncR2 → s.count ≤ 0
  i4 : s.sd = true → s.count ≤ 0
  i5 : s.flag = true → 0 < s.lReg + s.lRechk → 0 < s.kS3 + s.kS4
  i6 : s.flag = true → s.count ≤ 0 → s.sd = false → 0 < s.cR1 + s.lUncR2 + s.kS3
  i7 : s.sd = true → s.comp = true ∨ s.compWait = true ∨ s.fin = true
  i8 : s.fin = true → s.sd = true
  i9 : s.flag = false → s.kS3 + s.kS4 = 0 ∧ s.sd = false ∧ s.notified = false
  i10 : s.comp = true → s.sd = true
  i11 : s.compWait = true → s.sd = true
  i12 : s.fin = true → s.acked ≥ s.wanted
  i13 : s.compWait = true ∨ s.fin = true → s.wanted = s.hooksReg
  i14 : (s.comp = true → s.compWait = false ∧ s.fin = false) ∧ (s.compWait = true → s.fin = false)
  -- a listener that registered after a notify, or was woken by one, exists only once the flag is stored
  i15 : 0 < s.lRechkK + s.lRechkW → s.flag = true
  -- after the first notify nobody is left in (or enters) the states that still need one
  i16 : s.notified = true → s.lRechk = 0 ∧ s.lReg = 0
  -- while the flag is stored and nobody has notified, a notifier is on its way
  i17 : s.flag = true → s.notified = false → 0 < s.kS3 + s.kS4

theorem inv_init (n : Nat) : SInv (init n) := by
  constructor <;> simp [init]

macro "inv_case" : tactic => `(tactic| (
  rename_i s h he
  obtain ⟨i1, i3, i4, i5, i6, i7, i8, i9, i10, i11, i12, i13, i14, i15, i16, i17⟩ := h
  obtain ⟨flag, sd, comp, compWait, fin, notified, count, lTop, lLf, lRechk, lRechkK, lRechkW, lReg, lHold, lSawS, lUnc,
    lUncR2, lClosed, cBacklog, cRun, cR1, cDone, kS3, kS4, kEnd, hooksReg, wanted, acked⟩ := s
  simp only [enabled, apply, S.callShutdown, S.listenersOpen, Bool.and_eq_true, decide_eq_true_eq,
    Bool.not_eq_true'] at he ⊢
  constructor <;> (try split) <;> (try split) <;>
    first
    | (simp_all; done)
    | (simp_all <;> omega)
    | (cases flag <;> cases sd <;> cases comp <;> cases compWait <;> cases fin <;> cases notified <;> simp_all <;> omega)))

end ShutdownWM
