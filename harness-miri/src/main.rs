use kvarn::prelude::*;
use std::sync::{Arc, Barrier};

fn main() {
    let callers: usize = std::env::args().nth(1).and_then(|s| s.parse().ok()).unwrap_or(3);
    let body = Bytes::from((0..400u32).map(|i| (i % 7) as u8 + b'a').collect::<Vec<u8>>());
    let mut resp = Response::new(body.clone());
    resp.headers_mut().insert("content-type", HeaderValue::from_static("text/html"));
    let cr = Arc::new(kvarn::verif::compressed_response(resp));
    let bar = Arc::new(Barrier::new(callers));
    let mut hs = Vec::new();
    for i in 0..callers {
        let (cr, bar) = (cr.clone(), bar.clone());
        hs.push(std::thread::spawn(move || {
            let rt = tokio::runtime::Builder::new_current_thread().build().unwrap();
            bar.wait();
            rt.block_on(async {
                // every caller asks for both variants, in different orders and at different levels
                let (g, b) = if i % 2 == 0 {
                    let g = cr.get_gzip(1 + i as u32).await.clone();
                    let b = cr.get_br(1 + i as u32).await.clone();
                    (g, b)
                } else {
                    let b = cr.get_br(1 + i as u32).await.clone();
                    let g = cr.get_gzip(1 + i as u32).await.clone();
                    (g, b)
                };
                (g, b)
            })
        }));
    }
    let outs: Vec<(Bytes, Bytes)> = hs.into_iter().map(|h| h.join().unwrap()).collect();
    // everybody got the same bytes
    for o in &outs {
        assert_eq!(o.0, outs[0].0, "gzip variants differ between callers");
        assert_eq!(o.1, outs[0].1, "br variants differ between callers");
        assert!(o.0.len() > 10 && o.1.len() > 4);
    }
    println!("memo-miri-ok callers={callers}");
}
