import KvarnModel.Drv.Util
import KvarnModel.QueryIter
import KvarnModel.UrlCrawl
namespace Drv.C02
open Wire Drv UrlCrawl

def handle : List String → Option String
  -- qiter <pairs before> <pairs of the name> <pairs after> [f,b,…] : QueryPairIter driven from both ends
  | ["qiter", n0, na, nb, ds] => do
    let n0 ← n0.toNat?; let na ← na.toNat?; let nb ← nb.toNat?
    let dirs ← (← parseList ds).mapM fun d => if d = "f" then some QueryIter.Dir.front else if d = "b" then some QueryIter.Dir.back else none
    pure (match QueryIter.drive (List.range (n0 + na + nb)) ⟨n0, n0 + na⟩ dirs with
      | none => "panic"
      | some (f, b, _) => s!"front={listStr (f.map fun i => toString (i - n0))} back={listStr (b.map fun i => toString (i - n0))}")
  -- crawl <html> : the urls `url_crawl::get_urls` yields
  | ["crawl", h] => do
    pure (match getUrls (← bytesOfHex h) with
      | .ok urls => "ok " ++ listStr (urls.map hexOfBytes)
      | .err _ => "err"
      | .panic _ => "panic")
  | _ => none
end Drv.C02
