import KvarnModel.Drv.Util
import KvarnModel.Quoted
import KvarnModel.CtlShutdown
namespace Drv.C19
open Wire Drv Quoted

/-- harness/src/groups/c19.rs `CLI_NAMES` -/
def cliNames : List (List Char) := ["rec".toList, "re c".toList, "re'c".toList, "re\"c".toList, "re\\c".toList]

def handle : List String → Option String
  | ["split", h] => do
    let cs ← charsOfHex h
    pure (listStr ((split cs).map hexOfChars))
  | ["msg", l] => do
    let xs ← parseList l
    let args ← xs.mapM charsOfHex
    pure (hexOfChars (message args))
  | ["dispatch", h] =>
    -- `!` marks non-UTF-8 input (the harness decides with the real `str::from_utf8`)
    let input : Option (Option (List Char)) :=
      if h.startsWith "!" then some none else (charsOfHex h).map some
    input.map fun i =>
      let r := dispatch pingOnly i
      s!"close={boolStr r.close} data={hexOfChars r.data}"
  -- builtin <request hex> : `shutdown …` / `wait …` on a fresh instance — refused (and nothing changed) or accepted
  | ["builtin", h] => do
    let s ← charsOfHex h
    match split s with
    | name :: args =>
      let r ← if name = "shutdown".toList then some (CtlShutdown.shutdown args {})
        else if name = "wait".toList then some (CtlShutdown.wait args {}) else none
      pure (if r.1 then (if r.2 == ({} : CtlShutdown.Inst) then "builtin:refused" else "builtin:refused-but-changed") else "builtin:accepted")
    | [] => none
  -- cli <command hex> [argument hexes]: the kvarnctl binary against an instance with the plugins `cliNames`
  | ["cli", c, l] => do
    let cmd ← charsOfHex c
    let args ← (← parseList l).mapM charsOfHex
    let toks := split (kvarnctl cmd args)
    if cliNames.contains (toks.headD []) then pure s!"exit=0 seen={listStr (toks.map hexOfChars)}"
    else pure "exit=1 seen=-"
  | _ => none
end Drv.C19
