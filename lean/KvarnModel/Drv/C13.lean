import KvarnModel.Drv.Util
import KvarnModel.Cors
namespace Drv.C13
open Wire Drv Cors

def optB (s : String) : Option (Option Bytes) := if s = "none" then some none else (bytesOfHex s).map some

/-- rule: `norule` | `<allowAll 0|1>/<origins o;o (scheme~host~port|none)>/<methods m;m | all>/<headers h;h | ->/<maxage>` -/
def parseRule (s : String) : Option (Option AllowList) :=
  if s = "norule" then some none else
  match s.splitOn "/" with
  | [aa, os, ms, hs, ma] => do
    let origins ← if os = "-" then some [] else (os.splitOn ";").mapM fun o => match o.splitOn "~" with
      | [sc, h, p] => do
        let port ← if p = "none" then some none else p.toNat?.map some
        pure (← bytesOfHex sc, ← bytesOfHex h, port)
      | _ => none
    let methods ← if ms = "all" then some none else ((ms.splitOn ";").mapM bytesOfHex).map some
    let headers ← if hs = "-" then some [] else (hs.splitOn ";").mapM bytesOfHex
    -- `<seconds>` or `<seconds>.<milliseconds, three digits>`
    let (secs, nanos) ← match ma.splitOn "." with
      | [sec] => do pure (← sec.toNat?, 0)
      | [sec, ms] => do pure (← sec.toNat?, (← ms.toNat?) * 1000000)
      | _ => none
    pure (some ⟨← parseBool aa, origins, methods, headers, secs, nanos⟩)
  | _ => none

def showList (l : List Bytes) : String := ";".intercalate (l.map hexOfBytes)

def handle : List String → Option String
  -- respond <rule> <method> <origin raw|none> <parsed: scheme~host~port | unparsable | none> <req scheme> <req authority> <acrm> <page status>
  | ["respond", rule, m, oraw, opar, rs, ra, acrm, page] => do
    let parsed : Option Origin ← if opar = "none" || opar = "unparsable" then some none else
      match opar.splitOn "~" with
      | [sc, h, p] => do
        let port ← if p = "none" then some none else p.toNat?.map some
        pure (some ⟨← optB sc, ← optB h, port⟩)
      | _ => none
    let r : Req := ⟨← bytesOfHex m, ← optB oraw, parsed, ← optB rs, ← optB ra, ← parseBool acrm⟩
    let rep := respond (← parseRule rule) r (← page.toNat?)
    pure s!"{rep.status} ran={boolStr rep.handlerRan} acao={optStr hexOfBytes rep.acao} am={optStr (fun x => optStr showList x) rep.allowMethods} ah={optStr showList rep.allowHeaders} ma={optStr toString rep.maxAge}"
  | _ => none
end Drv.C13
