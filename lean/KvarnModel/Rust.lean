/-
Rust semantics shared by all models (DESIGN §3).

* `Bytes = List UInt8` is the one representation for byte strings.
* A Rust panic is a *value*: `Res.panic`.  No function is totalised behind a
  property's back: every slice/index/arith primitive that can panic in Rust
  returns `Res`.
* Integers are `Nat` with the machine bound made explicit at the primitive.
-/

abbrev Bytes := List UInt8

/-- Outcome of a Rust computation that may panic or return an error value. -/
inductive Res (ε α : Type) where
  | ok (a : α)
  | err (e : ε)
  | panic (why : String)
  deriving Repr, DecidableEq

namespace Res
@[inline] def bind {ε α β} (r : Res ε α) (f : α → Res ε β) : Res ε β :=
  match r with
  | .ok a => f a
  | .err e => .err e
  | .panic w => .panic w

@[inline] def map {ε α β} (f : α → β) (r : Res ε α) : Res ε β :=
  match r with
  | .ok a => .ok (f a)
  | .err e => .err e
  | .panic w => .panic w

instance {ε} : Monad (Res ε) where
  pure := .ok
  bind := Res.bind

def isPanic {ε α} : Res ε α → Bool
  | .panic _ => true
  | _ => false

def isOk {ε α} : Res ε α → Bool
  | .ok _ => true
  | _ => false
end Res

namespace Rust

def U64_MAX : Nat := 18446744073709551615
def USIZE_MAX : Nat := 18446744073709551615
def U32_MAX : Nat := 4294967295
def I32_MIN : Int := -2147483648
def I32_MAX : Int := 2147483647

/-- `&b[a..e]` : panics unless `a ≤ e ≤ len`. -/
def slice {ε} (b : Bytes) (a e : Nat) : Res ε Bytes :=
  if a ≤ e ∧ e ≤ b.length then .ok ((b.drop a).take (e - a)) else .panic "slice index"

/-- `b.get(a..e)` -/
def sliceGet (b : Bytes) (a e : Nat) : Option Bytes :=
  if a ≤ e ∧ e ≤ b.length then some ((b.drop a).take (e - a)) else none

/-- total slice used in specs: bytes `a..e` clipped. -/
def extract (b : List α) (a e : Nat) : List α := (b.drop a).take (e - a)

/-- `a + b` on `u64` with overflow checks on (debug build): overflow is a panic. -/
def addU64 {ε} (a b : Nat) : Res ε Nat :=
  if a + b ≤ U64_MAX then .ok (a + b) else .panic "attempt to add with overflow"

def mulUsize {ε} (a b : Nat) : Res ε Nat :=
  if a * b ≤ USIZE_MAX then .ok (a * b) else .panic "attempt to multiply with overflow"

def satAddU64 (a b : Nat) : Nat := min (a + b) U64_MAX
def satMulUsize (a b : Nat) : Nat := min (a * b) USIZE_MAX

/-- ASCII helpers -/
def isDigit (b : UInt8) : Bool := 48 ≤ b && b ≤ 57
def isUpper (b : UInt8) : Bool := 65 ≤ b && b ≤ 90
def isLower (b : UInt8) : Bool := 97 ≤ b && b ≤ 122
def toLower (b : UInt8) : UInt8 := if isUpper b then b + 32 else b

/-- `u64::from_str` on bytes: optional leading `+`, at least one digit, only digits, value ≤ max. -/
def parseDigits : Bytes → Nat → Option Nat
  | [], acc => some acc
  | b :: r, acc => if isDigit b then parseDigits r (acc * 10 + (b.toNat - 48)) else none

def stripPlus : Bytes → Bytes
  | 43 :: r => r   -- '+'
  | s => s

def parseUnsigned (max : Nat) (s : Bytes) : Option Nat :=
  if (stripPlus s).isEmpty then none else
  (parseDigits (stripPlus s) 0).bind fun n => if n ≤ max then some n else none

def parseU64 := parseUnsigned U64_MAX

/-- `slice::starts_with` -/
def startsWith [BEq α] : List α → List α → Bool
  | _, [] => true
  | [], _ :: _ => false
  | a :: as, b :: bs => a == b && startsWith as bs

/-- first index of `x` in `l` (`iter().position(|b| b == x)`) -/
def position [BEq α] (x : α) : List α → Option Nat
  | [] => none
  | a :: as => if a == x then some 0 else (position x as).map (· + 1)

/-- `memmem::find` : first index where `pat` occurs. -/
def findSub [BEq α] (pat : List α) : List α → Option Nat
  | [] => if pat.isEmpty then some 0 else none
  | a :: as => if startsWith (a :: as) pat then some 0 else (findSub pat as).map (· + 1)

def containsSub [BEq α] (pat l : List α) : Bool := (findSub pat l).isSome

/-- `core::str::from_utf8(..).is_ok()` — transcription of `run_utf8_validation`: shortest-form only,
no surrogates, at most U+10FFFF. -/
def isCont (b : UInt8) : Bool := 0x80 ≤ b && b ≤ 0xBF

def utf8Valid : Bytes → Bool
  | [] => true
  | b0 :: rest =>
    if b0 < 0x80 then utf8Valid rest
    else if 0xC2 ≤ b0 && b0 ≤ 0xDF then
      match rest with
      | b1 :: r => isCont b1 && utf8Valid r
      | _ => false
    else if 0xE0 ≤ b0 && b0 ≤ 0xEF then
      match rest with
      | b1 :: b2 :: r =>
        (if b0 == 0xE0 then 0xA0 ≤ b1 && b1 ≤ 0xBF
         else if b0 == 0xED then 0x80 ≤ b1 && b1 ≤ 0x9F
         else isCont b1) && isCont b2 && utf8Valid r
      | _ => false
    else if 0xF0 ≤ b0 && b0 ≤ 0xF4 then
      match rest with
      | b1 :: b2 :: b3 :: r =>
        (if b0 == 0xF0 then 0x90 ≤ b1 && b1 ≤ 0xBF
         else if b0 == 0xF4 then 0x80 ≤ b1 && b1 ≤ 0x8F
         else isCont b1) && isCont b2 && isCont b3 && utf8Valid r
      | _ => false
    else false

/-- a property of all 256 byte values, checked value by value -/
theorem forall_u8 (P : UInt8 → Prop) (h : ∀ n, n < 256 → P (UInt8.ofNat n)) (x : UInt8) : P x := by
  have := h x.toNat x.toNat_lt
  simpa using this

end Rust

/-! ### Text helpers for the line protocol (not part of any theorem) -/
namespace Wire

def hexDigit (n : Nat) : Char :=
  if n < 10 then Char.ofNat (48 + n) else Char.ofNat (87 + n)

def hexOfBytes (b : Bytes) : String :=
  if b.isEmpty then "-" else
  String.ofList (b.flatMap fun x => [hexDigit (x.toNat / 16), hexDigit (x.toNat % 16)])

def hexVal (c : Char) : Option Nat :=
  if '0' ≤ c ∧ c ≤ '9' then some (c.toNat - 48)
  else if 'a' ≤ c ∧ c ≤ 'f' then some (c.toNat - 87)
  else if 'A' ≤ c ∧ c ≤ 'F' then some (c.toNat - 55)
  else none

def bytesOfHexAux : List Char → Bytes → Option Bytes
  | [], acc => some acc.reverse
  | [_], _ => none
  | a :: b :: r, acc =>
    match hexVal a, hexVal b with
    | some x, some y => bytesOfHexAux r (UInt8.ofNat (x * 16 + y) :: acc)
    | _, _ => none

/-- `gen:<len>:<seed>` — a long deterministic byte string: byte i = (i*7 + seed + i/251) % 256 -/
def genBytes (len seed : Nat) : Bytes :=
  (List.range len).map fun i => UInt8.ofNat ((i * 7 + seed + i / 251) % 256)

def bytesOfHex (s : String) : Option Bytes :=
  if s = "-" then some []
  else if s.startsWith "gen:" then
    match s.splitOn ":" with
    | [_, l, sd] => do pure (genBytes (← l.toNat?) (← sd.toNat?))
    | _ => none
  else bytesOfHexAux s.toList []

def strOfBytes (b : Bytes) : Option String :=
  String.fromUTF8? (ByteArray.mk b.toArray)

def bytesOfStr (s : String) : Bytes := s.toUTF8.toList

def listStr (xs : List String) : String := "[" ++ ",".intercalate xs ++ "]"

end Wire
