import KvarnModel.Drv.Util
import KvarnModel.Vary
import KvarnModel.VaryConc
namespace Drv.C05
open Wire Drv Vary

def b (s : String) : Bytes := s.toUTF8.toList

/-- the three many-to-few transformations of the harness (harness/src/groups/c05.rs) -/
def rulesAll : List Rule := [
  ⟨b "x-lang", fun v => v.take 1, b "d0"⟩,                       -- class = first byte
  ⟨b "x-size", fun v => if v.length < 3 then b "s" else b "l", b "d1"⟩,   -- class = short / long
  ⟨b "x-any", fun _ => b "c", b "d2"⟩,                            -- constant
  -- names that occur inside the always-advertised `accept-encoding, range`
  ⟨b "accept", fun v => v.take 1, b "d3"⟩,
  ⟨b "accept-language", fun v => if v.length < 3 then b "s" else b "l", b "d4"⟩,
  ⟨b "encoding", fun _ => b "c", b "d5"⟩,
  -- classes of different lengths, the empty one included: tuples whose values concatenate to the same bytes
  -- (`a`,`bc` / `ab`,`c`; ``,`x` / `x`,``) are different tuples
  ⟨b "x-first", fun v => v.take 2, b ""⟩,
  ⟨b "x-second", fun v => v.take 2, b "c"⟩]

def digest (t : Tuple) : Nat :=
  t.foldl (fun acc v => (v.foldl (fun a x => (a * 257 + x.toNat + 1) % 1000000007) ((acc * 31 + 7) % 1000000007))) 17

/-- request = `v0;v1;v2` (hex, `~` = header absent), one field per active rule -/
def parseReq (rules : List Rule) (s : String) : Option (Bytes → Option Bytes) := do
  let vals ← (if rules.isEmpty then [] else s.splitOn ";").mapM fun f => if f = "~" then some none else (bytesOfHex f).map some
  let tbl := (rules.map (·.name)).zip vals
  pure fun n => ((tbl.find? (·.1 == n)).map (·.2)).join

def handle : List String → Option String
  -- serve <rule mask, e.g. 02> [req,req,…]
  | ["serve", mask, rs] => do
    let rules := ((mask.toList.filter Char.isDigit).filterMap fun c => rulesAll[c.toNat - 48]?)
    let hdrs ← (← parseList rs).mapM (parseReq rules)
    let ts := hdrs.map (tupleOf rules)
    let (_, outs) := serveAll digest [] ts
    pure (listStr (outs.map fun (r, c) => s!"{r}:{boolStr c}") ++ " vary=" ++ hexOfBytes (varyHeader rules false))
  -- conc [l<class>|f<class>|k,…] : looks, finishes and clears of overlapping requests on one page; the handler runs per class
  | ["conc", acts] => do
    let toks ← parseList acts
    let as ← toks.mapM fun t =>
      if t = "k" then some VaryConc.Act.clear
      else if t.startsWith "l" then (t.drop 1).toString.toNat?.map VaryConc.Act.look
      else if t.startsWith "f" then (t.drop 1).toString.toNat?.map VaryConc.Act.finish
      else none
    let st := VaryConc.run {} as
    let names := ["aa", "bb", "cc", "dd", "zz", "mm", "nn"]
    let order := st.computed.eraseDups
    pure ("ok computations=" ++ ",".intercalate (order.map fun c => s!"{names.getD c "?"}:{VaryConc.count st c}"))
  | _ => none
end Drv.C05
