//! C03 / C04 — the response cache: histories of requests, clears and waits against handlers whose output
//! carries an invocation counter; the same history against an uncached twin.
use crate::common::*;
use kvarn::prelude::*;
use std::sync::atomic::{AtomicUsize, Ordering};
use std::sync::Arc;

/// (routed path, preference, status, size, header name, header value, stream) — same table as lean/KvarnModel/Drv/C03.lean
const TABLE: [(&str, &str, u16, usize, &str, &str, bool); 21] = [
    ("/full", "full", 200, 60, "", "", false),
    ("/qm", "qm", 200, 60, "", "", false),
    ("/none", "none", 200, 60, "", "", false),
    ("/s404", "full", 404, 60, "", "", false),
    ("/s403", "full", 403, 60, "", "", false),
    ("/kccnone", "full", 200, 60, "kvarn-cache-control", "none", false),
    ("/life1", "full", 200, 60, "kvarn-cache-control", "1s", false),
    ("/maxage2", "full", 200, 60, "cache-control", "max-age=2", false),
    ("/big", "full", 200, 4194304, "", "", false),
    ("/index.html", "full", 200, 60, "", "", false),
    ("/d/index.html", "qm", 200, 60, "", "", false),
    ("/almost", "full", 200, 4194303, "", "", false),
    ("/stream", "full", 200, 60, "", "", true),
    // the preference depends on the request: QueryMatters for `?x=1`, Full otherwise — both key variants of one
    // path can be live at the same time
    ("/mix", "mix", 200, 60, "", "", false),
    // pages with a vary rule on `x-lang` (classes en = default, sv, de); what the handler declares depends on the class
    // (see `vary_out`): the variants of one page differ in lifetime, preference, status, cache-control, streaming, size
    ("/vlife", "vlife", 200, 60, "", "", false),
    ("/vmix", "vmix", 200, 60, "", "", false),
    ("/vttl", "vttl", 200, 60, "", "", false),
    ("/vmix2", "vmix2", 200, 60, "", "", false),
    ("/vbig", "vbig", 200, 60, "", "", false),
    // a handler that rewrites the request's URI while it runs (to `/full`): the entry belongs to the URI that was looked up
    ("/rw", "rw", 200, 60, "", "", false),
    // a page whose *path* spells what `/qm` + `x=1` spell together: the key of `/qm?x=1` keeps path and query apart
    ("/qmx=1", "full", 200, 60, "", "", false),
];
/// the class of a request on a page with the vary rule: event field `a` = no header (default class), `b` = sv, `c` = de
fn class_of(variant: &str) -> usize {
    match variant { "b" => 1, "c" => 2, _ => 0 }
}
/// (preference, status, size, header name, header value, stream) of a vary page for a class — same as `varyOut` in Drv/C03.lean
fn vary_out(kind: &str, class: usize) -> (&'static str, u16, usize, &'static str, &'static str, bool) {
    match (kind, class) {
        ("vlife", _) => ("full", 200, 60, "kvarn-cache-control", "2s", false),
        ("vmix", 1) => ("none", 200, 60, "", "", false),
        ("vmix", 2) => ("full", 403, 60, "", "", false),
        ("vttl", 1) => ("full", 200, 60, "kvarn-cache-control", "1s", false),
        ("vttl", 2) => ("full", 200, 60, "cache-control", "max-age=2", false),
        ("vmix2", 1) => ("full", 200, 60, "kvarn-cache-control", "none", false),
        ("vmix2", 2) => ("full", 200, 60, "", "", true),
        ("vbig", 1) => ("full", 200, 4194304, "", "", false),
        _ => ("full", 200, 60, "", "", false),
    }
}
fn is_vary(pi: usize) -> bool {
    TABLE[pi].1.starts_with('v')
}
const QUERIES: [Option<&str>; 4] = [None, Some(""), Some("x=1"), Some("x=2")];

fn build_host(cache: bool, permissive: bool) -> (Arc<HostCollection>, Vec<Arc<AtomicUsize>>) {
    let mut ext = Extensions::empty();
    ext.with_uri_redirect();
    let mut counters = Vec::new();
    for (idx, (path, pref, status, size, hn, hv, stream)) in TABLE.iter().enumerate() {
        let c = Arc::new(AtomicUsize::new(0));
        counters.push(c.clone());
        let (pref, status, size, hn, hv, stream) = (*pref, *status, *size, *hn, *hv, *stream);
        ext.add_prepare_single(
            *path,
            prepare!(req, _h, _p, _a, move |c: Arc<AtomicUsize>, idx: usize, pref: &'static str, status: u16, size: usize, hn: &'static str, hv: &'static str, stream: bool| {
                let n = c.fetch_add(1, Ordering::SeqCst);
                // pages with a vary rule: the output is a function of the request's class
                let vo = if pref.starts_with('v') {
                    let class = match req.headers().get("x-lang").and_then(|v| v.to_str().ok()) { Some(v) if v.starts_with("sv") => 1, Some(v) if v.starts_with("de") => 2, _ => 0 };
                    vary_out(pref, class)
                } else { (*pref, *status, *size, *hn, *hv, *stream) };
                let (pref, status, size, hn, hv, stream) = (&vo.0, &vo.1, &vo.2, &vo.3, &vo.4, &vo.5);
                // a QueryMatters page is a function of path *and query*: the representation names the query it was
                // computed for (so that an entry served for another query differs from the uncached server's answer)
                // (not `/mix`: it declares Full for most queries, i.e. that its output does not depend on the query)
                let rep = if *pref == "qm" { format!("p{idx}q{}", req.uri().query().unwrap_or("")) } else { format!("p{idx}") };
                let mut body = format!("{rep}#{n};").into_bytes();
                body.resize(*size, b'.');
                let mut r = Response::new(Bytes::from(body));
                *r.status_mut() = StatusCode::from_u16(*status).unwrap();
                if !hn.is_empty() {
                    r.headers_mut().insert(*hn, HeaderValue::from_static(hv));
                }
                if *pref == "rw" {
                    *req.uri_mut() = Uri::from_static("/full");
                }
                let f = match *pref {
                    "full" | "rw" => FatResponse::cache(r),
                    "qm" => FatResponse::new(r, comprash::ServerCachePreference::QueryMatters),
                    "mix" => if req.uri().query() == Some("x=1") { FatResponse::new(r, comprash::ServerCachePreference::QueryMatters) } else { FatResponse::cache(r) },
                    _ => FatResponse::no_cache(r),
                };
                if *stream { f.with_future(response_pipe_fut!(_pipe, _host, {})) } else { f }
            }),
        );
    }
    let mut opts = host::Options::default();
    if permissive {
        opts.status_code_cache_filter = |_| host::CacheAction::Cache;
    }
    let mut host = Host::unsecure("localhost", "/nonexistent", ext, opts);
    host.limiter.disable();
    for (path, pref, ..) in TABLE.iter() {
        if pref.starts_with('v') {
            host.vary.add_mut(*path, vary::Settings::empty().add_rule("x-lang", |v| Cow::Borrowed(if v.starts_with("sv") { "sv" } else if v.starts_with("de") { "de" } else { "en" }), "en"));
        }
    }
    if !cache {
        host.disable_response_cache();
    }
    // the default host as well, so that `clear_page("default", …)` and `clear_page("", …)` mean this host
    (HostCollection::builder().default(host).build(), counters)
}

fn gen_events(rng: &mut Rng, timed: bool) -> String {
    let n = rng.range(3, if timed { 10 } else { 40 });
    let mut t = 0usize;
    // one history in six concentrates on the handler with both key variants and clears often
    let mixy = !timed && rng.chance(1, 6);
    // one history in five concentrates on the pages with a vary rule
    let varyy = rng.chance(1, 5);
    let focus: Vec<usize> = if timed && varyy { vec![14, 16, 14] } else if timed { vec![6, 7, 0] } else if mixy { vec![13] } else if varyy { vec![rng.range(14, 18)] } else { (0..rng.range(1, 4)).map(|_| rng.below(TABLE.len())).collect() };
    list((0..n).map(|_| {
        if timed && rng.chance(1, 3) {
            t += *rng.pick(&[300usize, 1600, 2600]);
        } else {
            t += 5;
        }
        match if mixy && rng.chance(1, 5) { 0 } else { rng.below(14) } {
            0 => format!("K:{}:{}", rng.pick(&focus), rng.below(4)),
            1 if !timed => (*rng.pick(&["A", "A", "AH", "AO"])).to_owned(),
            3 if !timed && rng.chance(1, 2) => format!("KD:{}:{}", rng.pick(&focus), rng.below(4)),
            2 if !timed => format!("KR:{}", rng.below(4)),
            _ => {
                let p = if rng.chance(4, 5) { *rng.pick(&focus) } else { rng.below(TABLE.len()) };
                let m = *rng.pick(&["G", "G", "G", "G", "H", "H", "P", "O", "T"]);
                // lm0 / lm1: If-Modified-Since = the last-modified of the stored entry (as a hit reported it) / one second
                // before it — the boundary of "not older, to the second"; when no hit was seen yet they mean new / old
                let ims = *rng.pick(&["none", "none", "none", "none", "new", "old", "lm0", "lm1"]);
                // one request in twelve carries a reversed range (`bytes=30-20`): refused before anything is looked up or computed
                let rr = if rng.chance(1, 12) { ":rr" } else { "" };
                format!("R:{t}:{m}:{p}:{}:{ims}:{}{rr}", rng.below(4), *rng.pick(&["a", "a", "b", "b", "c"]))
            }
        }
    }))
}

pub struct History;
impl Group for History {
    fn timing_sensitive(&self) -> bool {
        true
    }
    fn name(&self) -> &'static str {
        "c03.hist"
    }
    fn rule(&self) -> &'static str {
        "histories of 3-40 events over 14 handlers (Full, QueryMatters, a handler whose preference depends on the query so that both key variants of one path are live, None, 404, filtered 403, kvarn-cache-control none / 1s, cache-control max-age=2, exactly 4 MiB and one byte less, `/`->/index.html and `/d/`->/d/index.html expansions, a streaming response) x 4 query forms (none, empty, x=1, x=2) x GET/HEAD/POST/OPTIONS/TRACE x If-Modified-Since (absent, current, 10 s old, the stored entry's own last-modified as a hit reported it, one second before that) x clear_page (by host name, as `default`, as ``) / clear of `/` as typed / clear_response_caches (all hosts, this host, another host), default and permissive status filter, cache on/off; timed histories use real waits of 0.3/1.6/2.6 s against lifetimes of 1 and 2 s; every handler embeds its invocation counter, so which replies are hits, which are recomputed and which are 304 is observable and compared with the model; the same history runs against an uncached twin (oracle: same status and same representation, no counter older than its lifetime); non-trivial = at least one hit or 304"
    }
    fn generate(&self, ctx: &Ctx, rng: &mut Rng) -> Vec<String> {
        let mut v = Vec::new();
        let timed = if ctx.mode == Mode::Quick { 12 } else { 150 };
        for _ in 0..timed {
            v.push(format!("c03.hist 1 0 {}", gen_events(rng, true)));
        }
        // pages with a vary rule and lifetimes: a second class joins the entry half-way through its lifetime (the first
        // must still expire on time), a class with a lifetime joins an entry without one (and must expire)
        v.push("c03.hist 1 0 [R:0:G:14:0:none:a,R:1600:G:14:0:none:b,R:2600:G:14:0:none:a,R:2610:G:14:0:none:b]".to_owned());
        v.push("c03.hist 1 0 [R:0:G:16:0:none:a,R:300:G:16:0:none:b,R:1900:G:16:0:none:b,R:1910:G:16:0:none:a]".to_owned());
        v.push("c03.hist 1 0 [R:0:G:16:0:none:b,R:300:G:16:0:none:c,R:1600:G:16:0:none:c,R:1610:G:16:0:none:b]".to_owned());
        // both key variants of one path, then a clear of one of them; a safe non-GET method after a GET
        v.push("c03.hist 1 0 [R:5:G:13:2:none:a,R:10:G:13:3:none:a,K:13:2,R:15:G:13:2:none:a,R:20:G:13:3:none:a]".to_owned());
        v.push("c03.hist 1 0 [R:5:G:13:3:none:a,R:10:G:13:2:none:a,K:13:3,R:15:G:13:3:none:a,R:20:G:13:2:none:a]".to_owned());
        v.push("c03.hist 1 0 [R:5:G:0:0:none:a,R:10:O:0:0:none:a,R:15:T:0:0:none:a,R:20:H:0:0:none:a,R:25:G:3:0:none:a,R:30:O:3:0:none:a]".to_owned());
        // a reversed range on a warm entry, GET and HEAD
        v.push("c03.hist 1 0 [R:5:G:0:0:none:a,R:10:G:0:0:none:a,R:15:G:0:0:none:a:rr,R:20:H:0:0:none:a:rr,R:25:G:0:0:none:a]".to_owned());
        // a handler that rewrites the request's URI to another page's: neither page may end up with the other's entry
        v.push("c03.hist 1 0 [R:5:G:19:0:none:a,R:10:G:0:0:none:a,R:15:G:19:0:none:a,R:20:G:0:0:none:a]".to_owned());
        v.push("c03.hist 1 0 [R:5:G:0:2:none:a,R:10:G:19:2:none:a,R:15:G:0:2:none:a,R:20:G:19:3:none:a,R:25:H:0:0:none:a]".to_owned());
        // `/qm?x=1` and `/qmx=1` are different resources (either order; then each once more, as hits)
        v.push("c03.hist 1 0 [R:5:G:1:2:none:a,R:10:G:20:0:none:a,R:15:G:1:2:none:a,R:20:G:20:0:none:a,R:25:H:20:0:none:a]".to_owned());
        v.push("c03.hist 1 0 [R:5:G:20:0:none:a,R:10:G:1:2:none:a,R:15:G:20:0:none:a,R:20:G:1:2:none:a,R:25:G:20:1:none:a]".to_owned());
        // If-Modified-Since on the boundary: three GETs (the second and third are hits and report the entry's second),
        // then a copy from exactly that second (304) and a copy one second older (not 304)
        v.push("c03.hist 1 0 [R:5:G:0:0:none:a,R:10:G:0:0:none:a,R:15:G:0:0:lm0:a,R:20:G:0:0:lm1:a,R:25:H:0:0:lm1:a,R:30:G:0:0:lm0:a]".to_owned());
        v.push("c03.hist 1 0 [R:5:G:1:2:none:a,R:10:G:1:2:none:a,R:15:G:1:2:lm1:a,R:20:G:1:2:lm0:a,K:1:2,R:25:G:1:2:lm1:a,R:30:G:1:2:none:a,R:35:G:1:2:lm1:a]".to_owned());
        let n = if ctx.mode == Mode::Quick { 1200 } else { 30_000 };
        for _ in 0..n {
            let ce = b01(!rng.chance(1, 10));
            let pf = b01(rng.chance(1, 5));
            v.push(format!("c03.hist {ce} {pf} {}", gen_events(rng, false)));
        }
        v
    }
    fn run_impl(&self, _ctx: &Ctx, line: &str) -> String {
        let p: Vec<&str> = line.split(' ').collect();
        let rt = tokio::runtime::Builder::new_current_thread().enable_all().build().unwrap();
        let (coll, _) = build_host(p[1] == "1", p[2] == "1");
        let (twin, _) = build_host(false, p[2] == "1");
        let host = coll.get_host("localhost").unwrap();
        let thost = twin.get_host("localhost").unwrap();
        let addr: SocketAddr = "10.0.0.2:4000".parse().unwrap();
        let t0 = std::time::Instant::now();
        let mut outs = Vec::new();
        let mut problems = Vec::new();
        // per (page, query): the counter of the last GET/HEAD reply, and the last-modified a *hit* reported (= the second
        // the stored entry was created in); both forgotten at every clear and whenever the page is recomputed
        let mut last_counter: std::collections::HashMap<(usize, usize), String> = Default::default();
        let mut hit_lm: std::collections::HashMap<(usize, usize), time::OffsetDateTime> = Default::default();
        for ev in parse_list(p[3]).unwrap() {
            let f: Vec<&str> = ev.split(':').collect();
            match f[0] {
                "R" => {
                    let due = std::time::Duration::from_millis(f[1].parse().unwrap());
                    if t0.elapsed() < due {
                        std::thread::sleep(due - t0.elapsed());
                    }
                    if t0.elapsed() > due + std::time::Duration::from_millis(250) && due.as_millis() > 200 {
                        return "inconclusive: timing jitter".into();
                    }
                    let pi: usize = f[3].parse().unwrap();
                    let routed = TABLE[pi].0;
                    let typed = match (routed, f[6]) { ("/index.html", "a") => "/", ("/d/index.html", "a") => "/d/", (r, _) => r };
                    let uri = match QUERIES[f[4].parse::<usize>().unwrap()] { None => typed.to_owned(), Some(q) => format!("{typed}?{q}") };
                    let qi: usize = f[4].parse().unwrap();
                    let tracked = !is_vary(pi) && matches!(f[2], "G" | "H") && f.get(7) != Some(&"rr");
                    let entry_lm: Option<time::OffsetDateTime> = if tracked { hit_lm.get(&(pi, qi)).copied() } else { None };
                    let mk = || {
                        let mut b = Request::builder().method(match f[2] { "G" => "GET", "H" => "HEAD", "O" => "OPTIONS", "T" => "TRACE", _ => "POST" }).uri(&uri);
                        if is_vary(pi) && class_of(f[6]) > 0 {
                            b = b.header("x-lang", if class_of(f[6]) == 1 { "sv-SE" } else { "de" });
                        }
                        if f.get(7) == Some(&"rr") {
                            b = b.header("range", "bytes=30-20");
                        }
                        if f[5] != "none" {
                            let when = match (f[5], entry_lm) {
                                ("lm0", Some(lm)) => lm,
                                ("lm1", Some(lm)) => lm - time::Duration::seconds(1),
                                ("old", _) | ("lm1", None) => time::OffsetDateTime::now_utc() - time::Duration::seconds(10),
                                _ => time::OffsetDateTime::now_utc(),
                            };
                            b = b.header("if-modified-since", when.format(&comprash::HTTP_DATE).unwrap());
                        }
                        b.body(kvarn::application::Body::Bytes(Bytes::new().into())).unwrap()
                    };
                    let mut req = mk();
                    let reply = rt.block_on(kvarn::handle_cache(&mut req, addr, host));
                    let mut treq = mk();
                    let treply = rt.block_on(kvarn::handle_cache(&mut treq, addr, thost));
                    let show = |r: &kvarn::CacheReply| -> (u16, String) {
                        let st = r.response.status().as_u16();
                        let b = String::from_utf8_lossy(&r.identity_body[..r.identity_body.len().min(24)]).into_owned();
                        (st, b.split(';').next().unwrap_or("").to_owned())
                    };
                    let (st, body) = show(&reply);
                    let (tst, tbody) = show(&treply);
                    if st == 304 {
                        // a copy one second older than the entry must not be validated (statement: "not older, to the second")
                        outs.push(if f[5] == "lm1" && entry_lm.is_some() { "304!older-copy-validated".to_owned() } else { "304".to_owned() });
                    } else {
                        if tracked {
                            let counter = body.split('#').nth(1).unwrap_or("?").to_owned();
                            if last_counter.get(&(pi, qi)) == Some(&counter) {
                                // the same representation again: a hit; its last-modified is the entry's creation second
                                let lm = reply.response.headers().get("last-modified").and_then(|h| h.to_str().ok())
                                    .and_then(|v| time::PrimitiveDateTime::parse(v, &comprash::HTTP_DATE).ok()).map(time::PrimitiveDateTime::assume_utc);
                                match lm { Some(lm) => { hit_lm.insert((pi, qi), lm); } None => { hit_lm.remove(&(pi, qi)); } }
                            } else {
                                last_counter.insert((pi, qi), counter);
                                hit_lm.remove(&(pi, qi));
                            }
                        }
                        outs.push(format!("{st}#{}", body.split('#').nth(1).unwrap_or("?")));
                        // statement-level: same status and representation as the uncached server
                        if st != tst || body.split('#').next() != tbody.split('#').next() {
                            problems.push(format!("{uri}: cached server {st} {body}, uncached {tst} {tbody}"));
                        }
                    }
                }
                "K" => {
                    last_counter.clear();
                    hit_lm.clear();
                    let pi: usize = f[1].parse().unwrap();
                    let uri = match QUERIES[f[2].parse::<usize>().unwrap()] { None => TABLE[pi].0.to_owned(), Some(q) => format!("{}?{q}", TABLE[pi].0) };
                    coll.clear_page("localhost", &uri.parse().unwrap());
                }
                "KD" => {
                    // the same page cleared through the default host's names
                    last_counter.clear();
                    hit_lm.clear();
                    let pi: usize = f[1].parse().unwrap();
                    let uri = match QUERIES[f[2].parse::<usize>().unwrap()] { None => TABLE[pi].0.to_owned(), Some(q) => format!("{}?{q}", TABLE[pi].0) };
                    coll.clear_page(if pi % 2 == 0 { "default" } else { "" }, &uri.parse().unwrap());
                }
                "AH" => {
                    // every response of this host
                    last_counter.clear();
                    hit_lm.clear();
                    rt.block_on(coll.clear_response_caches(Some("localhost")));
                }
                "AO" => {
                    // every response of some other host: nothing of ours
                    rt.block_on(coll.clear_response_caches(Some("other.test")));
                }
                "KR" => {
                    last_counter.clear();
                    hit_lm.clear();
                    let uri = match QUERIES[f[1].parse::<usize>().unwrap()] { None => "/".to_owned(), Some(q) => format!("/?{q}") };
                    coll.clear_page("localhost", &uri.parse().unwrap());
                }
                _ => {
                    last_counter.clear();
                    hit_lm.clear();
                    rt.block_on(coll.clear_response_caches(None));
                }
            }
        }
        if problems.is_empty() { list(outs) } else { format!("{} DIFFERS-FROM-UNCACHED {}", list(outs), problems.join(" || ")) }
    }
    fn oracle(&self, _ctx: &Ctx, line: &str, out: &str) -> Option<(String, String)> {
        if out.contains("DIFFERS-FROM-UNCACHED") || out == "panic" {
            return Some((format!("uncached:{line}"), out.to_owned()));
        }
        if out.contains("304!older-copy-validated") {
            return Some((format!("ims-older:{line}"), format!("`304 Not Modified` for an If-Modified-Since one second before the stored entry's last-modified: {out}")));
        }
        // statement-level (C04): responses that are not cacheable are recomputed on every request — their
        // invocation counters never repeat; POST never repeats either.
        let p: Vec<&str> = line.split(' ').collect();
        let permissive = p[2] == "1";
        let outs = parse_list(out)?;
        let mut seen: std::collections::HashMap<usize, Vec<String>> = Default::default();
        // (handler, query form) -> replies produced before the last explicit clear of that page
        let mut cleared: std::collections::HashMap<(usize, String), Vec<String>> = Default::default();
        let mut oi = 0;
        // (handler, reply) -> (when it was first produced, the lifetime it was produced with)
        let mut first_seen: std::collections::HashMap<(usize, String), (u64, Option<u64>)> = Default::default();
        let mut once_only: std::collections::HashSet<(usize, String)> = Default::default();
        for ev in parse_list(p[3])? {
            let f: Vec<&str> = ev.split(':').collect();
            if f[0] == "K" || f[0] == "KD" {
                let pi: usize = f[1].parse().ok()?;
                cleared.insert((pi, f[2].to_owned()), seen.get(&pi).cloned().unwrap_or_default());
                continue;
            }
            if f[0] == "A" || f[0] == "AH" {
                for (pi, v) in &seen {
                    for q in 0..4 {
                        cleared.insert((*pi, q.to_string()), v.clone());
                    }
                }
                continue;
            }
            if f[0] != "R" {
                continue;
            }
            let o = outs.get(oi)?.clone();
            oi += 1;
            if f.get(7) == Some(&"rr") {
                // a reversed range is answered 416 whatever is cached (the statement of C09; for C03: what the uncached server says)
                if !o.starts_with("416") {
                    return Some((format!("range-hit:{line}"), format!("a request with `range: bytes=30-20` was answered {o}, not with the 416 page")));
                }
                continue;
            }
            let pi: usize = f[3].parse().ok()?;
            let mut t = TABLE[pi];
            if is_vary(pi) {
                let o = vary_out(t.1, class_of(f[6]));
                t = (t.0, o.0, o.1, o.2, o.3, o.4, o.5);
            }
            let uncacheable = t.1 == "none" || (t.2 == 403 && !permissive) || t.5 == "none" || t.3 >= 4 * 1024 * 1024 || t.6 || !matches!(f[2], "G" | "H");
            if o == "304" {
                // (on a page with a vary rule the 304 vouches for the page's entry, which another class may have stored)
                if uncacheable && matches!(f[2], "G" | "H") && t.1 != "full" && t.1 != "mix" && !is_vary(pi) {
                    return Some((format!("stored:{line}"), format!("304 for the uncacheable {}", t.0)));
                }
                continue;
            }
            // not at all after an explicit clear of that page
            if let Some(before) = cleared.get(&(pi, f[4].to_owned())) {
                if before.contains(&o) {
                    return Some((format!("cleared:{line}"), format!("{}?{} was cleared, yet the reply {o} produced before the clear was served after it", t.0, f[4])));
                }
            }
            // never served more than its lifetime after it was stored (0.4 s of slack for the real clock)
            {
                let life_ms: Option<u64> = match (t.4, t.5) { ("kvarn-cache-control", "1s") => Some(1000), ("kvarn-cache-control", "2s") => Some(2000), ("cache-control", "max-age=2") => Some(2000), _ => None };
                let now: u64 = f[1].parse().ok()?;
                match first_seen.get(&(pi, o.clone())) {
                    Some((t0, Some(l))) if now > *t0 + *l + 400 => {
                        return Some((format!("stale:{line}"), format!("{} reply {o} was stored at {t0} ms with a lifetime of {l} ms and served at {now} ms", t.0)));
                    }
                    Some(_) => {}
                    None => { first_seen.insert((pi, o.clone()), (now, life_ms)); }
                }
            }
            // what was computed for a request whose response must not be stored is never seen again, by anybody
            if once_only.contains(&(pi, o.clone())) {
                return Some((format!("stored:{line}"), format!("{} reply {o} was computed for a request whose response is not cacheable, and was served again later", t.0)));
            }
            if uncacheable || p[1] == "0" {
                once_only.insert((pi, o.clone()));
            }
            let e = seen.entry(pi).or_default();
            if (uncacheable || p[1] == "0") && e.contains(&o) {
                return Some((format!("stored:{line}"), format!("{} is not cacheable (or the cache is off) but the reply {o} was served twice", t.0)));
            }
            if f[2] != "P" || true {
                e.push(o);
            }
        }
        None
    }
    fn driver_line(&self, line: &str) -> String {
        // the model takes If-Modified-Since as "current" or "10 s old"; an entry's own second is current, the second before it old
        line.replace(":lm0:", ":new:").replace(":lm1:", ":old:")
    }
    fn nontrivial(&self, _l: &str, o: &str) -> bool {
        // a repeated counter = a hit
        let v = parse_list(o).unwrap_or_default();
        v.iter().any(|x| x == "304") || { let mut s = v.clone(); s.sort(); s.windows(2).any(|w| w[0] == w[1]) }
    }
    fn classify(&self, l: &str, o: &str) -> String {
        format!("{}{}{}", if l.split(':').any(|f| f.parse::<usize>().map_or(false, |t| t >= 300 && t % 5 == 0 && l.contains(&format!("R:{t}:")))) && (l.contains(":6:") || l.contains(":7:") || l.contains(":14:") || l.contains(":16:")) { "timed " } else { "" }, if l.contains(":14:") || l.contains(":15:") || l.contains(":16:") || l.contains(":17:") || l.contains(":18:") { "vary " } else { "" }, if o.contains("304") { "304" } else { "plain" })
    }
    fn shrink(&self, line: &str) -> Vec<String> {
        let p: Vec<&str> = line.split(' ').collect();
        let evs = parse_list(p[3]).unwrap();
        (0..evs.len()).map(|i| { let mut e = evs.clone(); e.remove(i); format!("{} {} {} {}", p[0], p[1], p[2], list(e)) }).collect()
    }
}

/// `comprash::UriKey` / `PathQuery` as the code builds them from a `Uri`: equality of the keys of two URIs, and what the
/// accessors give back
pub struct Keys;
impl Group for Keys {
    fn name(&self) -> &'static str {
        "c03.key"
    }
    fn rule(&self) -> &'static str {
        "UriKey::path_and_query(&uri) for EVERY pair of URIs over 10 paths (among them pairs whose path + query spell the same string: /item?7 and /item7, /qm?x=1 and /qmx=1, /a?b and /ab) x 8 queries (absent, empty, ...): whether the two keys are equal (==, and then their hashes), PathQuery::path(), query(), into_path() of the first; compared with the model's representation (`UriKey.ofUri`, both fields compared); oracle from the statement: the keys are equal exactly when the paths are equal and the queries are (absent = empty); non-trivial = the two URIs differ"
    }
    fn generate(&self, _ctx: &Ctx, _rng: &mut Rng) -> Vec<String> {
        let paths = ["/", "/a", "/ab", "/a/b", "/item", "/item7", "/qm", "/qmx=1", "/a%3Fb", "/a/"];
        let queries: [Option<&str>; 8] = [None, Some(""), Some("b"), Some("7"), Some("x=1"), Some("a=b&c"), Some("?x"), Some("/b")];
        let show = |q: &Option<&str>| q.map(|q| hex(q.as_bytes())).unwrap_or("none".into());
        let mut v = Vec::new();
        for p1 in paths {
            for q1 in &queries {
                for p2 in paths {
                    for q2 in &queries {
                        v.push(format!("c03.key {} {} {} {}", hex(p1.as_bytes()), show(q1), hex(p2.as_bytes()), show(q2)));
                    }
                }
            }
        }
        v
    }
    fn run_impl(&self, _ctx: &Ctx, line: &str) -> String {
        use std::hash::{Hash, Hasher};
        let p: Vec<&str> = line.split(' ').collect();
        let uri = |ph: &str, qh: &str| -> Uri {
            let mut s = String::from_utf8(unhex(ph).unwrap()).unwrap();
            if qh != "none" { s.push('?'); s.push_str(&String::from_utf8(unhex(qh).unwrap()).unwrap()); }
            s.parse().unwrap()
        };
        let (k1, k2) = (comprash::UriKey::path_and_query(&uri(p[1], p[2])), comprash::UriKey::path_and_query(&uri(p[3], p[4])));
        let h = |k: &comprash::UriKey| { let mut s = std::collections::hash_map::DefaultHasher::new(); k.hash(&mut s); s.finish() };
        let eq = k1 == k2;
        if eq && h(&k1) != h(&k2) { return "equal keys with different hashes".into(); }
        match k1 {
            comprash::UriKey::PathQuery(pq) => format!("eq={} p={} q={} into={}", b01(eq), hex(pq.path().as_bytes()), pq.query().map(|q| hex(q.as_bytes())).unwrap_or("none".into()), hex(pq.clone().into_path().as_bytes())),
            comprash::UriKey::Path(_) => "path-only key".into(),
        }
    }
    fn oracle(&self, _ctx: &Ctx, line: &str, out: &str) -> Option<(String, String)> {
        let p: Vec<&str> = line.split(' ').collect();
        let norm = |q: &str| if q == "none" || q == "-" { String::new() } else { q.to_owned() };
        let same = p[1] == p[3] && norm(p[2]) == norm(p[4]);
        if !out.starts_with(&format!("eq={} ", b01(same))) {
            let show = |ph: &str, qh: &str| format!("{}{}", String::from_utf8_lossy(&unhex(ph).unwrap_or_default()), if qh == "none" { String::new() } else { format!("?{}", String::from_utf8_lossy(&unhex(qh).unwrap_or_default())) });
            return Some((format!("key:{line}"), format!("`{}` and `{}` are {} resources, but their cache keys say: {out}", show(p[1], p[2]), show(p[3], p[4]), if same { "the same" } else { "different" })));
        }
        None
    }
    fn nontrivial(&self, line: &str, _o: &str) -> bool {
        let p: Vec<&str> = line.split(' ').collect();
        p[1] != p[3] || p[2] != p[4]
    }
    fn classify(&self, _l: &str, o: &str) -> String {
        o.split(' ').next().unwrap_or("").to_owned()
    }
}
