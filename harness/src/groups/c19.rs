//! C19 — control-socket argument round trip and dispatch.
use crate::common::*;

fn gen_string(rng: &mut Rng, max: usize) -> String {
    let n = rng.below(max + 1);
    let mut s = String::new();
    let unicode = rng.chance(1, 6);
    for _ in 0..n {
        let c = match rng.below(if unicode { 9 } else { 6 }) {
            0 => 'a',
            1 => ' ',
            2 => '"',
            3 => '\'',
            4 => '\\',
            5 => 'b',
            6 => 'ü',
            7 => '\u{1F600}',
            _ => char::from_u32(rng.range(1, 0xD7FF) as u32).unwrap_or('x'),
        };
        s.push(c);
    }
    s
}

/// all strings over {a, space, ", ', \} of length ≤ n
fn all_strings(n: usize) -> Vec<String> {
    let alpha = ['a', ' ', '"', '\'', '\\'];
    let mut out = vec![String::new()];
    let mut frontier = vec![String::new()];
    for _ in 0..n {
        let mut next = Vec::new();
        for s in &frontier {
            for c in alpha {
                let mut t = s.clone();
                t.push(c);
                next.push(t);
            }
        }
        out.extend(next.iter().cloned());
        frontier = next;
    }
    out
}

pub struct Split;
impl Group for Split {
    fn name(&self) -> &'static str {
        "c19.split"
    }
    fn rule(&self) -> &'static str {
        "quoted_str_split on arbitrary strings over {a,b,space,\",',\\,unicode}: bounded-exhaustive to length 5 (quick) / 7 (thorough) plus random to length 24; non-trivial = contains a quote, backslash or space"
    }
    fn generate(&self, ctx: &Ctx, rng: &mut Rng) -> Vec<String> {
        let mut v: Vec<String> = all_strings(if ctx.mode == Mode::Quick { 5 } else { 7 })
            .into_iter()
            .map(|s| format!("c19.split {}", hex(s.as_bytes())))
            .collect();
        let n = if ctx.mode == Mode::Quick { 3000 } else { 100_000 };
        for _ in 0..n {
            v.push(format!("c19.split {}", hex(gen_string(rng, 24).as_bytes())));
        }
        v
    }
    fn run_impl(&self, _ctx: &Ctx, line: &str) -> String {
        let h = line.split(' ').nth(1).unwrap();
        let b = unhex(h).unwrap();
        let s = std::str::from_utf8(&b).unwrap();
        list(kvarn_utils::quoted_str_split(s).map(|t| hex(t.as_bytes())))
    }
    fn nontrivial(&self, line: &str, _o: &str) -> bool {
        let b = unhex(line.split(' ').nth(1).unwrap()).unwrap();
        b.iter().any(|c| matches!(c, b'"' | b'\'' | b'\\' | b' '))
    }
    fn classify(&self, _l: &str, o: &str) -> String {
        format!("tokens={}", parse_list(o).map(|v| v.len().min(5)).unwrap_or(99))
    }
    fn shrink(&self, line: &str) -> Vec<String> {
        let b = unhex(line.split(' ').nth(1).unwrap()).unwrap();
        let s = String::from_utf8(b).unwrap();
        let cs: Vec<char> = s.chars().collect();
        (0..cs.len())
            .map(|i| {
                let t: String = cs.iter().enumerate().filter(|(j, _)| *j != i).map(|(_, c)| *c).collect();
                format!("c19.split {}", hex(t.as_bytes()))
            })
            .collect()
    }
}

pub struct Msg;
impl Msg {
    fn args(line: &str) -> Vec<String> {
        parse_list(line.split(' ').nth(1).unwrap())
            .unwrap()
            .into_iter()
            .map(|h| String::from_utf8(unhex(&h).unwrap()).unwrap())
            .collect()
    }
    fn encode(args: &[String]) -> String {
        let mut s = String::new();
        for (i, a) in args.iter().enumerate() {
            if i > 0 {
                s.push(' ');
            }
            kvarn_utils::encode_quoted_str(a, &mut s);
        }
        s
    }
}
impl Group for Msg {
    fn name(&self) -> &'static str {
        "c19.msg"
    }
    fn rule(&self) -> &'static str {
        "argument vectors (0-3 arguments over {a,space,\",',\\} exhaustively to length 3/4 per argument, random unicode to 12) encoded with encode_quoted_str; oracle: quoted_str_split(encoded) == args; non-trivial = some argument empty or containing a special character"
    }
    fn generate(&self, ctx: &Ctx, rng: &mut Rng) -> Vec<String> {
        let mut v = Vec::new();
        let small = all_strings(if ctx.mode == Mode::Quick { 2 } else { 3 });
        // all pairs of small strings
        for a in &small {
            for b in &small {
                v.push(format!("c19.msg {}", list([hex(a.as_bytes()), hex(b.as_bytes())])));
            }
        }
        for a in all_strings(if ctx.mode == Mode::Quick { 4 } else { 6 }) {
            v.push(format!("c19.msg {}", list([hex(a.as_bytes())])));
        }
        v.push("c19.msg []".into());
        let n = if ctx.mode == Mode::Quick { 2000 } else { 50_000 };
        for _ in 0..n {
            let k = rng.below(4);
            v.push(format!("c19.msg {}", list((0..k).map(|_| hex(gen_string(rng, 12).as_bytes())))));
        }
        v
    }
    fn run_impl(&self, _ctx: &Ctx, line: &str) -> String {
        hex(Self::encode(&Self::args(line)).as_bytes())
    }
    fn oracle(&self, _ctx: &Ctx, line: &str, out: &str) -> Option<(String, String)> {
        if out == "panic" {
            return Some(("panic".into(), "encode_quoted_str panicked".into()));
        }
        let args = Self::args(line);
        let enc = String::from_utf8(unhex(out)?).ok()?;
        let back: Vec<String> = kvarn_utils::quoted_str_split(&enc).collect();
        if back != args {
            Some((format!("roundtrip:{:?}", args), format!("split(encode({args:?})) = {back:?}")))
        } else {
            None
        }
    }
    fn nontrivial(&self, line: &str, _o: &str) -> bool {
        Self::args(line).iter().any(|a| a.is_empty() || a.contains(['"', '\'', '\\', ' ']))
    }
    fn classify(&self, l: &str, _o: &str) -> String {
        format!("args={}", Self::args(l).len())
    }
    fn shrink(&self, line: &str) -> Vec<String> {
        let args = Self::args(line);
        let mut out = Vec::new();
        for i in 0..args.len() {
            let mut a = args.clone();
            a.remove(i);
            out.push(format!("c19.msg {}", list(a.iter().map(|s| hex(s.as_bytes())))));
            let cs: Vec<char> = args[i].chars().collect();
            for j in 0..cs.len() {
                let mut a = args.clone();
                a[i] = cs.iter().enumerate().filter(|(k, _)| *k != j).map(|(_, c)| *c).collect();
                out.push(format!("c19.msg {}", list(a.iter().map(|s| hex(s.as_bytes())))));
            }
        }
        out
    }
}

/// End to end through the unix socket of a real instance.
pub struct Dispatch {
    rt: tokio::runtime::Runtime,
    path: std::path::PathBuf,
    _mgr: std::sync::Arc<kvarn::shutdown::Manager>,
}
impl Dispatch {
    pub fn new(ctx: &Ctx) -> Self {
        let rt = tokio::runtime::Builder::new_multi_thread().worker_threads(2).enable_all().build().unwrap();
        let dir = ctx.work.join("c19");
        std::fs::create_dir_all(&dir).unwrap();
        let path = dir.join(format!("ctl-{}.sock", std::process::id()));
        let _ = std::fs::remove_file(&path);
        let p2 = path.clone();
        let mgr = rt.block_on(async move { kvarn::RunConfig::new().set_ctl_path(&p2).execute().await });
        // wait for the socket
        for _ in 0..200 {
            if path.exists() {
                break;
            }
            std::thread::sleep(std::time::Duration::from_millis(10));
        }
        Dispatch { rt, path, _mgr: mgr }
    }
    fn send(&self, data: Vec<u8>) -> String {
        let path = self.path.clone();
        self.rt.block_on(async move {
            match tokio::time::timeout(std::time::Duration::from_secs(5), kvarn_signal::unix::send_to(data, &path)).await {
                Ok(kvarn_signal::unix::Response::Data(d)) => format!("close=0 data={}", hex(&d)),
                Ok(kvarn_signal::unix::Response::NotFound) => "notfound".into(),
                Ok(kvarn_signal::unix::Response::Error) => "error".into(),
                Err(_) => "timeout".into(),
            }
        })
    }
}
impl Dispatch {
    /// … of which `shutdown` and `wait` have a model
    fn modelled_builtin(line: &str) -> bool {
        let h = line.split(' ').nth(1).unwrap_or("");
        unhex(h.trim_start_matches('!')).map_or(false, |d| d.starts_with(b"shutdown ") || d.starts_with(b"wait "))
    }
    /// lines of the fixed list that send a built-in command with arguments it refuses
    fn refused_builtin(line: &str) -> bool {
        let h = line.split(' ').nth(1).unwrap_or("");
        unhex(h.trim_start_matches('!')).map_or(false, |d| [&b"shutdown "[..], b"wait ", b"clear ", b"reload "].iter().any(|p| d.starts_with(p)))
    }
}
impl Group for Dispatch {
    // a real server / real sockets with read timeouts: a failure counts if it shows again when the same case is re-run
    fn timing_sensitive(&self) -> bool {
        true
    }
    fn name(&self) -> &'static str {
        "c19.dispatch"
    }
    fn rule(&self) -> &'static str {
        "commands sent with kvarn_signal::unix::send_to to a running instance (RunConfig::set_ctl_path): ping with generated arguments, unknown commands, empty input, non-UTF-8 bytes, in one long session on one socket; oracle: ping payload splits back to the arguments, error replies start with `error`, every request is answered; non-trivial = ping with a special argument, or an error case"
    }
    fn parallel(&self) -> bool {
        false
    }
    fn generate(&self, ctx: &Ctx, rng: &mut Rng) -> Vec<String> {
        let mut v = vec![
            "c19.dispatch !ff".to_owned(),
            "c19.dispatch -".to_owned(),
            format!("c19.dispatch {}", hex(b"ping")),
            format!("c19.dispatch {}", hex(b"ping \"\"")),
            format!("c19.dispatch {}", hex(b"nonexistent a b")),
            format!("c19.dispatch {}", hex(b"  ping   a  'b c' ")),
            format!("c19.dispatch {}", hex(b"'pi'ng x")),
            // requests around and far beyond 4 KiB (the size of the buffer the listener starts with): one long argument, many short ones
            format!("c19.dispatch {}", hex(format!("ping {}", "a".repeat(4091)).as_bytes())),
            format!("c19.dispatch {}", hex(format!("ping {}", "b".repeat(4092)).as_bytes())),
            format!("c19.dispatch {}", hex(format!("ping {}", "c".repeat(5000)).as_bytes())),
            format!("c19.dispatch {}", hex(format!("ping {}", "\u{e9}".repeat(9000)).as_bytes())),
            format!("c19.dispatch {}", hex(format!("ping{}", " xy".repeat(3000)).as_bytes())),
            format!("c19.dispatch {}", hex(format!("x{}", "q".repeat(70_000)).as_bytes())),
            // a well-formed command followed by the beginning of a multi-byte character and nothing else: not UTF-8 either
            "c19.dispatch !70696e67206120e282".to_owned(),
            "c19.dispatch !70696e6720c3".to_owned(),
            "c19.dispatch !70696e67202261222020f09f98".to_owned(),
            "c19.dispatch !70696e67e2".to_owned(),
            // built-in commands with arguments they refuse: an `error …` reply and nothing else happens — the pings behind
            // them are answered by the same instance
            format!("c19.dispatch {}", hex(b"shutdown no-wait now")),
            format!("c19.dispatch {}", hex(b"ping after-refused-shutdown")),
            format!("c19.dispatch {}", hex(b"shutdown now")),
            format!("c19.dispatch {}", hex(b"shutdown no-wait no-wait")),
            format!("c19.dispatch {}", hex(b"wait for it")),
            format!("c19.dispatch {}", hex(b"clear nothing at all")),
            format!("c19.dispatch {}", hex(b"reload now please")),
            format!("c19.dispatch {}", hex(b"ping still-here")),
        ];
        // long requests with multi-byte characters at every alignment: unknown commands and pings of 40-200 bytes
        for shift in 0..5 {
            for ch in ["é", "漢", "🦀"] {
                for cmd in ["xnosuchcommand", "ping"] {
                    let mut m = format!("{cmd} \"{}", "a".repeat(shift));
                    for _ in 0..40 { m.push_str(ch); }
                    m.push('"');
                    v.push(format!("c19.dispatch {}", hex(m.as_bytes())));
                }
            }
        }
        let n = if ctx.mode == Mode::Quick { 250 } else { 4000 };
        for _ in 0..n {
            match rng.below(9) {
                8 => {
                    // a long request over a unicode alphabet, unknown command or ping
                    let cmd = if rng.chance(1, 2) { "xlong" } else { "ping" };
                    let mut m = String::from(cmd);
                    for _ in 0..rng.range(1, 4) {
                        let a: String = (0..rng.range(5, 40)).map(|_| *rng.pick(&['a', 'é', 'ü', '漢', '🦀', ' ', 'z', 'ß'])).collect();
                        m.push(' ');
                        kvarn_utils::encode_quoted_str(&a, &mut m);
                    }
                    v.push(format!("c19.dispatch {}", hex(m.as_bytes())));
                }
                0 => {
                    // not UTF-8: a byte that never occurs, a stray continuation byte, or a character cut off at the end —
                    // behind garbage or behind a well-formed `ping`
                    let mut b = if rng.chance(1, 2) { gen_string(rng, 8).into_bytes() } else { format!("ping {}", gen_string(rng, 5).replace(['"', '\'', '\\'], "")).into_bytes() };
                    match rng.below(4) {
                        0 => b.push(0xff),
                        1 => b.push(0x80),
                        2 => { let tails: [&[u8]; 5] = [&[0xc3], &[0xe2, 0x82], &[0xf0, 0x9f], &[0xf0, 0x9f, 0x98], &[0xe2]]; b.extend_from_slice(*rng.pick(&tails)); }
                        _ => { b.extend_from_slice(&[0xe2, 0x82]); b.push(b'x'); }
                    }
                    v.push(format!("c19.dispatch !{}", hex(&b)));
                }
                1 => v.push(format!("c19.dispatch {}", hex(format!("x{}", gen_string(rng, 6).replace([' ', '"', '\'', '\\'], "")).as_bytes()))),
                2 => v.push(format!("c19.dispatch {}", hex(format!("ping {}", gen_string(rng, 16)).as_bytes()))),
                _ => {
                    let k = rng.below(4);
                    let args: Vec<String> = (0..k).map(|_| gen_string(rng, 8)).collect();
                    let mut m = String::from("ping");
                    for a in &args {
                        m.push(' ');
                        kvarn_utils::encode_quoted_str(a, &mut m);
                    }
                    v.push(format!("c19.dispatch {}", hex(m.as_bytes())));
                }
            }
        }
        v
    }
    fn run_impl(&self, _ctx: &Ctx, line: &str) -> String {
        let h = line.split(' ').nth(1).unwrap();
        let data = unhex(h.trim_start_matches('!')).unwrap();
        let out = self.send(data);
        if Self::modelled_builtin(line) {
            let refused = out.strip_prefix("close=0 data=").and_then(unhex).map_or(false, |r| r.starts_with(b"error"));
            return format!("builtin:{} {out}", if refused { "refused" } else { "accepted" });
        }
        out
    }
    fn compare_with_model(&self, line: &str) -> bool {
        // the model's plugin table holds `ping`; `shutdown` and `wait` are modelled in `CtlShutdown` (refused or accepted);
        // the other refused built-in commands are judged by the oracle alone
        !Self::refused_builtin(line) || Self::modelled_builtin(line)
    }
    fn driver_line(&self, line: &str) -> String {
        if Self::modelled_builtin(line) { line.replacen("c19.dispatch ", "c19.builtin ", 1) } else { line.to_owned() }
    }
    fn canon(&self, out: &str) -> String {
        // `builtin:<verdict> <raw reply>`: the verdict is what is compared
        if out.starts_with("builtin:") { out.split(' ').next().unwrap_or(out).to_owned() } else { out.to_owned() }
    }
    fn oracle(&self, _ctx: &Ctx, line: &str, out: &str) -> Option<(String, String)> {
        let h = line.split(' ').nth(1).unwrap();
        let binary = h.starts_with('!');
        let data = unhex(h.trim_start_matches('!')).unwrap();
        let out = if out.starts_with("builtin:") { out.split_once(' ').map_or("", |x| x.1) } else { out };
        let Some(reply) = out.strip_prefix("close=0 data=").and_then(unhex) else {
            return Some((format!("noreply:{h}"), format!("no reply on the control socket: {out}")));
        };
        if binary || std::str::from_utf8(&data).is_err() {
            if !reply.starts_with(b"error") {
                return Some((format!("binary:{h}"), "non-UTF-8 request not answered with error".into()));
            }
            return None;
        }
        let s = String::from_utf8(data).unwrap();
        if Self::refused_builtin(line) {
            if !reply.starts_with(b"error") {
                return Some((format!("refused:{h}"), format!("`{s}` carries arguments the command refuses, but was answered {:?}", String::from_utf8_lossy(&reply))));
            }
            return None;
        }
        // independent reference: a well-formed `ping "a" "b"` request echoes its arguments
        if let Some(rest) = s.strip_prefix("ping ") {
            // only judge requests built by the encoder (arguments all quoted by encode_quoted_str)
            let toks: Vec<String> = kvarn_utils::quoted_str_split(rest).collect();
            let mut m = String::new();
            for (i, a) in toks.iter().enumerate() {
                if i > 0 {
                    m.push(' ');
                }
                kvarn_utils::encode_quoted_str(a, &mut m);
            }
            if m == rest {
                let payload = String::from_utf8_lossy(reply.strip_prefix(b"ok").unwrap_or(&reply)).into_owned();
                let echoed: Vec<String> = kvarn_utils::quoted_str_split(&payload).collect();
                if !reply.starts_with(b"ok") || echoed != toks {
                    return Some((format!("ping:{h}"), format!("ping {toks:?} echoed {echoed:?}")));
                }
            }
        } else if s.starts_with('x') || s.starts_with("nonexistent") {
            if !reply.starts_with(b"error") {
                return Some((format!("unknown:{h}"), "unknown command not answered with error".into()));
            }
        }
        None
    }
    fn nontrivial(&self, line: &str, _o: &str) -> bool {
        let h = line.split(' ').nth(1).unwrap();
        h.starts_with('!') || unhex(h).map(|b| b.iter().any(|c| matches!(c, b'"' | b'\'' | b'\\'))).unwrap_or(false) || !line.contains(&hex(b"ping"))
    }
    fn classify(&self, _l: &str, o: &str) -> String {
        match o.strip_prefix("close=0 data=").and_then(unhex) {
            Some(r) if r.starts_with(b"ok") => "ok".into(),
            Some(r) if r.starts_with(b"error") => "error".into(),
            _ => o.chars().take(12).collect(),
        }
    }
}

/// commands arriving while an earlier one is still in flight (`wait` pending, or a client that stalls)
pub struct InFlight;
impl Group for InFlight {
    // a real server / real sockets with read timeouts: a failure counts if it shows again when the same case is re-run
    fn timing_sensitive(&self) -> bool {
        true
    }
    fn name(&self) -> &'static str {
        "c19.inflight"
    }
    fn rule(&self) -> &'static str {
        "a fresh instance per case; an earlier exchange is kept in flight — a `wait` command (answered only at shutdown) and/or a client that connected and sends nothing yet — then 1-4 `ping`s with generated arguments must each be answered within 3 s exactly as the dispatch model says; finally the stalled client completes its request and `shutdown` releases `wait`; non-trivial = always"
    }
    fn parallel(&self) -> bool {
        false
    }
    fn generate(&self, ctx: &Ctx, rng: &mut Rng) -> Vec<String> {
        let n = if ctx.mode == Mode::Quick { 6 } else { 60 };
        (0..n)
            .map(|i| {
                let kind = ["wait", "stall", "both"][i % 3];
                let pings = list((0..rng.range(1, 4)).map(|_| {
                    let mut m = String::from("ping");
                    for _ in 0..rng.below(3) {
                        m.push(' ');
                        kvarn_utils::encode_quoted_str(&gen_string(rng, 6), &mut m);
                    }
                    hex(m.as_bytes())
                }));
                format!("c19.inflight {kind} {pings}")
            })
            .collect()
    }
    fn driver_line(&self, _l: &str) -> String {
        "c19.split -".into()
    }
    fn canon(&self, out: &str) -> String {
        if out == "ok" || out == "[]" { "match".into() } else { out.to_owned() }
    }
    fn run_impl(&self, ctx: &Ctx, line: &str) -> String {
        use std::io::Write;
        let p: Vec<&str> = line.split(' ').collect();
        let rt = tokio::runtime::Builder::new_multi_thread().worker_threads(3).enable_all().build().unwrap();
        let dir = ctx.work.join("c19");
        std::fs::create_dir_all(&dir).unwrap();
        static N: std::sync::atomic::AtomicUsize = std::sync::atomic::AtomicUsize::new(0);
        let path = dir.join(format!("inflight-{}-{}.sock", std::process::id(), N.fetch_add(1, std::sync::atomic::Ordering::SeqCst)));
        let _ = std::fs::remove_file(&path);
        let p2 = path.clone();
        let _mgr = rt.block_on(async move { kvarn::RunConfig::new().set_ctl_path(&p2).execute().await });
        for _ in 0..300 {
            if path.exists() { break; }
            std::thread::sleep(std::time::Duration::from_millis(10));
        }
        let send = |data: Vec<u8>, secs: u64| -> Option<Vec<u8>> {
            let path = path.clone();
            rt.block_on(async move {
                match tokio::time::timeout(std::time::Duration::from_secs(secs), kvarn_signal::unix::send_to(data, &path)).await {
                    Ok(kvarn_signal::unix::Response::Data(d)) => Some(d),
                    _ => None,
                }
            })
        };
        // the in-flight exchanges
        let mut wait_handle = None;
        if p[1] == "wait" || p[1] == "both" {
            let path = path.clone();
            wait_handle = Some(rt.spawn(async move { kvarn_signal::unix::send_to(b"wait".to_vec(), &path).await }));
            std::thread::sleep(std::time::Duration::from_millis(150));
        }
        let mut stalled = None;
        if p[1] == "stall" || p[1] == "both" {
            stalled = std::os::unix::net::UnixStream::connect(&path).ok();
            std::thread::sleep(std::time::Duration::from_millis(150));
        }
        let mut problems = Vec::new();
        let mut lines = Vec::new();
        let mut observed = Vec::new();
        for h in parse_list(p[2]).unwrap() {
            lines.push(format!("c19.dispatch {h}"));
            match send(unhex(&h).unwrap(), 3) {
                Some(d) => observed.push(format!("close=0 data={}", hex(&d))),
                None => { observed.push("no-reply".into()); problems.push(format!("`{}` was not answered while another exchange was in flight", String::from_utf8_lossy(&unhex(&h).unwrap()))); break; }
            }
        }
        // the stalled client now sends its request and must be answered too
        if let Some(mut s) = stalled {
            use std::io::Read;
            let _ = s.write_all(b"ping late");
            let _ = s.shutdown(std::net::Shutdown::Write);
            let _ = s.set_read_timeout(Some(std::time::Duration::from_secs(3)));
            let mut buf = Vec::new();
            let _ = s.read_to_end(&mut buf);
            if !buf.starts_with(b"ok") { problems.push(format!("the stalled client got {:?}", String::from_utf8_lossy(&buf))); }
        }
        let sd = send(b"shutdown".to_vec(), 5);
        if sd.as_deref().map_or(true, |d| !d.starts_with(b"ok")) { problems.push(format!("shutdown not acknowledged: {sd:?}")); }
        if let Some(h) = wait_handle {
            let r = rt.block_on(async move { tokio::time::timeout(std::time::Duration::from_secs(5), h).await });
            match r {
                Ok(Ok(kvarn_signal::unix::Response::Data(d))) if d.starts_with(b"ok") => {}
                _ => problems.push("`wait` was not released by shutdown".to_owned()),
            }
        }
        rt.shutdown_background();
        let predicted = run_driver(&ctx.driver, &lines[..observed.len()]).unwrap_or_default();
        for (o, m) in observed.iter().zip(&predicted) {
            if o != m && o != "no-reply" { problems.push(format!("reply {o} but the model says {m}")); }
        }
        if problems.is_empty() { "ok".into() } else { format!("wedged {}", problems.join(" || ")) }
    }
    fn oracle(&self, _ctx: &Ctx, line: &str, out: &str) -> Option<(String, String)> {
        if out == "ok" { None } else { Some((format!("inflight:{line}"), out.to_owned())) }
    }
    fn classify(&self, l: &str, o: &str) -> String {
        format!("{} {}", l.split(' ').nth(1).unwrap_or(""), o.split(' ').next().unwrap_or(""))
    }
}

/// The real `kvarnctl` binary (ctl/src/main.rs, built from the working tree) against a running instance: what the plugin
/// registered under the typed command word receives.
pub struct Cli {
    rt: tokio::runtime::Runtime,
    path: std::path::PathBuf,
    bin: Result<std::path::PathBuf, String>,
    _mgr: std::sync::Arc<kvarn::shutdown::Manager>,
}
/// plugin names the instance registers: the command word goes through the same encoding as the arguments
const CLI_NAMES: [&str; 5] = ["rec", "re c", "re'c", "re\"c", "re\\c"];
static CLI_SEEN: std::sync::Mutex<Option<Vec<String>>> = std::sync::Mutex::new(None);
impl Cli {
    pub fn new(ctx: &Ctx) -> Self {
        // the kvarn tree this harness was built against: the path dependency in our own manifest
        let manifest_dir = env!("CARGO_MANIFEST_DIR");
        let manifest = std::fs::read_to_string(format!("{manifest_dir}/Cargo.toml")).unwrap_or_default();
        let root = manifest
            .lines()
            .find_map(|l| l.strip_prefix("kvarn = { path = \"").map(|r| r.split('"').next().unwrap_or("/repo").to_owned()))
            .unwrap_or_else(|| "/repo".to_owned());
        let target = format!("{manifest_dir}/target/kvarnctl");
        let out = std::process::Command::new("cargo")
            .args(["build", "--offline", "--manifest-path", &format!("{root}/ctl/Cargo.toml")])
            .env("CARGO_TARGET_DIR", &target)
            .env("CARGO_NET_OFFLINE", "true")
            .output();
        let bin = match out {
            Ok(o) if o.status.success() => Ok(std::path::PathBuf::from(format!("{target}/debug/kvarnctl"))),
            Ok(o) => Err(String::from_utf8_lossy(&o.stderr).lines().filter(|l| l.starts_with("error")).take(3).collect::<Vec<_>>().join(" | ")),
            Err(e) => Err(e.to_string()),
        };
        let rt = tokio::runtime::Builder::new_multi_thread().worker_threads(2).enable_all().build().unwrap();
        let dir = ctx.work.join("c19");
        std::fs::create_dir_all(&dir).unwrap();
        let path = dir.join(format!("cli-{}.sock", std::process::id()));
        let _ = std::fs::remove_file(&path);
        let p2 = path.clone();
        let mgr = rt.block_on(async move {
            let mut cfg = kvarn::RunConfig::new().set_ctl_path(&p2);
            for name in CLI_NAMES {
                let plugin: kvarn::ctl::Plugin = Box::new(|args, _ports, _mgr, _plugins| {
                    Box::pin(async move {
                        let mut v = vec![args.name().to_owned()];
                        v.extend(args.iter().map(str::to_owned));
                        *CLI_SEEN.lock().unwrap() = Some(v);
                        kvarn::ctl::PluginResponse::ok_empty()
                    }) as kvarn::extensions::RetSyncFut<'_, _>
                });
                cfg = cfg.add_plugin(name, plugin);
            }
            cfg.execute().await
        });
        for _ in 0..200 {
            if path.exists() {
                break;
            }
            std::thread::sleep(std::time::Duration::from_millis(10));
        }
        Cli { rt, path, bin, _mgr: mgr }
    }
    fn parts(line: &str) -> (String, Vec<String>) {
        let p: Vec<&str> = line.split(' ').collect();
        let cmd = String::from_utf8(unhex(p[1]).unwrap()).unwrap();
        let args = parse_list(p[2]).unwrap().iter().map(|h| String::from_utf8(unhex(h).unwrap()).unwrap()).collect();
        (cmd, args)
    }
    fn usable(a: &str) -> bool {
        // what a shell user can pass as a positional word: no NUL, and clap reads a leading `-` as an option
        !a.contains('\0') && !a.starts_with('-')
    }
}
impl Group for Cli {
    // a real server / real sockets with read timeouts: a failure counts if it shows again when the same case is re-run
    fn timing_sensitive(&self) -> bool {
        true
    }
    fn name(&self) -> &'static str {
        "c19.cli"
    }
    fn rule(&self) -> &'static str {
        "the kvarnctl binary built from the working tree (ctl/src/main.rs), run as `kvarnctl -s <socket> <command> <args…>` against a running instance whose plugins record the name and arguments they are called with; command words with a space, either quote and a backslash; 0-3 arguments over {a,space,\",',\\} exhaustively to length 2 (pairs) / 3, random unicode; compared with the model's kvarnctl + split + dispatch; oracle: the plugin named by the command word saw exactly the arguments typed, exit status 0; non-trivial = some word empty or with a special character"
    }
    fn parallel(&self) -> bool {
        false
    }
    fn generate(&self, ctx: &Ctx, rng: &mut Rng) -> Vec<String> {
        let mut v = Vec::new();
        let line = |cmd: &str, args: &[String]| format!("c19.cli {} {}", hex(cmd.as_bytes()), list(args.iter().map(|a| hex(a.as_bytes()))));
        v.push(line("rec", &[]));
        v.push(line("nosuchcommand", &["a".into()]));
        for cmd in CLI_NAMES {
            v.push(line(cmd, &["a".into()]));
            v.push(line(cmd, &["it's".into(), "o'neill.example.org".into(), "/index.html".into()]));
        }
        for a in all_strings(if ctx.mode == Mode::Quick { 3 } else { 4 }) {
            v.push(line("rec", &[a]));
        }
        let small = all_strings(if ctx.mode == Mode::Quick { 1 } else { 2 });
        for a in &small {
            for b in &small {
                v.push(line("rec", &[a.clone(), b.clone()]));
            }
        }
        let n = if ctx.mode == Mode::Quick { 300 } else { 6000 };
        for _ in 0..n {
            let cmd = if rng.chance(1, 4) { *rng.pick(&CLI_NAMES) } else { "rec" };
            let k = rng.range(1, 3);
            let args: Vec<String> = (0..k)
                .map(|_| {
                    let mut a = gen_string(rng, 10);
                    // words like a host name or a path with one apostrophe, dot, slash in them
                    if rng.chance(1, 4) {
                        a = format!("{}{}{}", rng.pick(&["o", "it", "/p/", "a.b"]), rng.pick(&["'", "\"", "\\", "' '"]), rng.pick(&["s.html", "neill.org", "", "x y"]));
                    }
                    a
                })
                .filter(|a| Self::usable(a))
                .collect();
            if !args.is_empty() {
                v.push(line(cmd, &args));
            }
        }
        v
    }
    fn run_impl(&self, _ctx: &Ctx, line: &str) -> String {
        let bin = match &self.bin {
            Ok(b) => b,
            Err(e) => return format!("kvarnctl-build-failed {e}"),
        };
        let (cmd, args) = Self::parts(line);
        *CLI_SEEN.lock().unwrap() = None;
        let mut child = match std::process::Command::new(bin)
            .arg("-s")
            .arg(&self.path)
            .arg(&cmd)
            .args(&args)
            .env("KVARNCTL_LOG", "off")
            .stdout(std::process::Stdio::null())
            .stderr(std::process::Stdio::null())
            .spawn()
        {
            Ok(c) => c,
            Err(e) => return format!("spawn-failed {e}"),
        };
        let t0 = std::time::Instant::now();
        let code = loop {
            match child.try_wait() {
                Ok(Some(st)) => break st.code().unwrap_or(-1),
                Ok(None) if t0.elapsed() > std::time::Duration::from_secs(10) => {
                    let _ = child.kill();
                    let _ = child.wait();
                    return "timeout".into();
                }
                Ok(None) => std::thread::sleep(std::time::Duration::from_millis(1)),
                Err(e) => return format!("wait-failed {e}"),
            }
        };
        let _ = &self.rt;
        match CLI_SEEN.lock().unwrap().take() {
            Some(v) => format!("exit={code} seen={}", list(v.iter().map(|a| hex(a.as_bytes())))),
            None => format!("exit={code} seen=-"),
        }
    }
    fn oracle(&self, _ctx: &Ctx, line: &str, out: &str) -> Option<(String, String)> {
        let (cmd, args) = Self::parts(line);
        if !CLI_NAMES.contains(&cmd.as_str()) || (args.is_empty() && cmd != "rec") {
            return None;
        }
        let mut typed = vec![cmd.clone()];
        typed.extend(args.iter().cloned());
        let want = format!("exit=0 seen={}", list(typed.iter().map(|a| hex(a.as_bytes()))));
        if out != want {
            let seen: Option<Vec<String>> = out.split("seen=").nth(1).and_then(parse_list).map(|l| l.iter().map(|h| String::from_utf8_lossy(&unhex(h).unwrap_or_default()).into_owned()).collect());
            return Some((format!("cli:{typed:?}"), format!("typed {typed:?}, the instance's plugin saw {seen:?} ({})", out.split(' ').next().unwrap_or(""))));
        }
        None
    }
    fn nontrivial(&self, line: &str, _o: &str) -> bool {
        let (cmd, args) = Self::parts(line);
        args.iter().chain(std::iter::once(&cmd)).any(|a| a.is_empty() || a.contains(['"', '\'', '\\', ' ']))
    }
    fn classify(&self, l: &str, o: &str) -> String {
        format!("args={} {}", Self::parts(l).1.len(), o.split(' ').next().unwrap_or(""))
    }
    fn shrink(&self, line: &str) -> Vec<String> {
        let (cmd, args) = Self::parts(line);
        let mk = |args: &[String]| format!("c19.cli {} {}", hex(cmd.as_bytes()), list(args.iter().map(|a| hex(a.as_bytes()))));
        let mut out = Vec::new();
        for i in 0..args.len() {
            if args.len() > 1 {
                let mut a = args.clone();
                a.remove(i);
                out.push(mk(&a));
            }
            let cs: Vec<char> = args[i].chars().collect();
            for j in 0..cs.len() {
                let mut a = args.clone();
                a[i] = cs.iter().enumerate().filter(|(k, _)| *k != j).map(|(_, c)| *c).collect();
                if Self::usable(&a[i]) {
                    out.push(mk(&a));
                }
            }
        }
        out
    }
}
