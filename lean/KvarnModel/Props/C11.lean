import KvarnModel.Handover
/-! C11 — handover: the successor listens before the predecessor stops. Property theorems, for any number of
instances and every interleaving of the steps of all of them (also overlapping starts), plus the statement about
the control socket for chains (each instance started after the previous one finished starting). -/
namespace Handover

structure HInv (h : H) : Prop where
  j0 : ∀ i, h.bound i = true → i < h.n
  j1 : ∀ k, h.told k = true → ∃ i, i ≠ k ∧ h.bound i = true ∧ h.told i = false     -- bind before told
  j2 : ∀ i, h.closed i = true → h.told i = true
  j3 : ∀ i, h.fin i = true → h.closed i = true
  j4 : ∀ c, h.ctl = some c → h.told c = false ∧ h.ctlDone c = true
  j5 : ∀ i, h.sent i = true → h.bound i = true
  j6 : ∀ i, h.told i = true → h.ctlDone i = true
  j7 : ∀ i, h.ctlDone i = true → h.sent i = true

theorem inv_init : HInv {} := by constructor <;> simp

theorem upd_eq (f : Nat → Bool) (i j : Nat) (v : Bool) : upd f i v j = if j = i then v else f j := rfl

theorem inv_apply (h : H) (a : Act) (I : HInv h) (he : enabled h a = true) : HInv (apply h a) := by
  obtain ⟨j0, j1, j2, j3, j4, j5, j6, j7⟩ := I
  cases a with
  | start =>
    exact ⟨fun i hi => by have := j0 i hi; simp [apply]; omega, j1, j2, j3, j4, j5, j6, j7⟩
  | bind b =>
    simp only [enabled, Bool.and_eq_true, decide_eq_true_eq, Bool.not_eq_true'] at he
    refine ⟨?_, ?_, j2, j3, j4, ?_, j6, j7⟩ <;> simp only [apply, upd_eq]
    · intro i hi; split at hi
      · omega
      · exact j0 i hi
    · intro k hk
      obtain ⟨i, h1, h2, h3⟩ := j1 k hk
      refine ⟨i, h1, ?_, h3⟩
      split
      · rfl
      · exact h2
    · intro i hi; split
      · rfl
      · exact j5 i hi
  | tell s k =>
    simp only [enabled, Bool.and_eq_true, Bool.not_eq_true', beq_iff_eq] at he
    obtain ⟨⟨hb, hs⟩, hc⟩ := he
    have hk := j4 k hc
    -- the sender has not been told: told → ctlDone → sent
    have hst : h.told s = false := by
      cases ht : h.told s with
      | false => rfl
      | true => have := j7 s (j6 s ht); rw [hs] at this; cases this
    have hne : s ≠ k := by
      intro e; subst e; have := j7 s hk.2; rw [hs] at this; cases this
    refine ⟨j0, ?_, ?_, j3, ?_, ?_, ?_, ?_⟩ <;> simp only [apply, upd_eq]
    · intro k' _
      by_cases e : k' = k
      · subst e
        refine ⟨s, hne, hb, ?_⟩
        rw [if_neg hne]; exact hst
      · -- k' was told before
        rename_i hk'
        rw [if_neg e] at hk'
        obtain ⟨i, h1, h2, h3⟩ := j1 k' hk'
        by_cases ei : i = k
        · subst ei
          refine ⟨s, ?_, hb, ?_⟩
          · intro es; subst es; rw [hst] at hk'; cases hk'
          · rw [if_neg hne]; exact hst
        · exact ⟨i, h1, h2, by rw [if_neg ei]; exact h3⟩
    · intro i hi; split
      · rfl
      · exact j2 i hi
    · intro c hc'; cases hc'
    · intro i hi; split at hi
      · rename_i e; subst e; exact hb
      · exact j5 i hi
    · intro i hi; split at hi
      · rename_i e; subst e; exact hk.2
      · exact j6 i hi
    · intro i hi; split
      · rfl
      · exact j7 i hi
  | sendNotFound k =>
    simp only [enabled, Bool.and_eq_true, Bool.not_eq_true', beq_iff_eq] at he
    refine ⟨j0, j1, j2, j3, j4, ?_, j6, ?_⟩ <;> simp only [apply, upd_eq]
    · intro i hi; split at hi
      · rename_i e; subst e; exact he.1.1
      · exact j5 i hi
    · intro i hi; split
      · rfl
      · exact j7 i hi
  | ctlBind k =>
    simp only [enabled, Bool.and_eq_true, Bool.not_eq_true'] at he
    have hnt : h.told k = false := by
      cases ht : h.told k with
      | false => rfl
      | true => have := j6 k ht; rw [he.2] at this; cases this
    refine ⟨j0, j1, j2, j3, ?_, j5, ?_, ?_⟩ <;> simp only [apply, upd_eq]
    · intro c hc
      simp only [Option.some.injEq] at hc; subst hc
      exact ⟨hnt, by simp⟩
    · intro i hi; split
      · rfl
      · exact j6 i hi
    · intro i hi; split at hi
      · rename_i e; subst e; exact he.1
      · exact j7 i hi
  | close k =>
    simp only [enabled, Bool.and_eq_true, Bool.not_eq_true'] at he
    refine ⟨j0, j1, ?_, ?_, j4, j5, j6, j7⟩ <;> simp only [apply, upd_eq]
    · intro i hi; split at hi
      · rename_i e; subst e; exact he.1
      · exact j2 i hi
    · intro i hi; split
      · rfl
      · exact j3 i hi
  | finish k =>
    simp only [enabled, Bool.and_eq_true, Bool.not_eq_true'] at he
    refine ⟨j0, j1, j2, ?_, j4, j5, j6, j7⟩
    simp only [apply, upd_eq]
    intro i hi; split at hi
    · rename_i e; subst e; exact he.1
    · exact j3 i hi

theorem inv_reach {h : H} (r : Reach h) : HInv h := by
  induction r with
  | init => exact inv_init
  | step a _ he ih => exact inv_apply _ a ih he

/-- **bind before told**: whenever an instance has been told to shut down, some *other* instance has the port
bound and has not been told (at the moment of telling it is the teller: `bind` precedes `send_to`). -/
theorem bind_before_told {h : H} (r : Reach h) (k : Nat) (ht : h.told k = true) :
    ∃ i, i ≠ k ∧ h.bound i = true ∧ h.told i = false :=
  (inv_reach r).j1 k ht

/-- **always listening**: from the first bind on, in every reachable state — every timing of every step of
any number of instances — some instance has the port bound and listening. -/
theorem always_listening {h : H} (r : Reach h) (hb : ∃ i, h.bound i = true) : Listening h := by
  have I := inv_reach r
  obtain ⟨i0, hi0⟩ := hb
  have key : ∃ m, h.bound m = true ∧ h.told m = false := by
    cases ht : h.told i0 with
    | false => exact ⟨i0, hi0, ht⟩
    | true => obtain ⟨i, _, h2, h3⟩ := I.j1 i0 ht; exact ⟨i, h2, h3⟩
  obtain ⟨m, hm1, hm2⟩ := key
  refine ⟨m, hm1, ?_⟩
  cases hc : h.closed m with
  | false => rfl
  | true => have := I.j2 m hc; rw [hm2] at this; cases this

/-- only a told instance ever closes its listeners or finishes -/
theorem closes_only_when_told {h : H} (r : Reach h) (i : Nat) (hc : h.closed i = true ∨ h.fin i = true) :
    h.told i = true := by
  have I := inv_reach r
  cases hc with
  | inl hc => exact I.j2 i hc
  | inr hf => exact I.j2 i (I.j3 i hf)

/-- whoever answers on the control socket path has not been told to shut down -/
theorem ctl_owner_not_told {h : H} (r : Reach h) (c : Nat) (hc : h.ctl = some c) :
    h.told c = false ∧ h.bound c = true :=
  have I := inv_reach r
  ⟨(I.j4 c hc).1, I.j5 c (I.j7 c (I.j4 c hc).2)⟩

/-! ### chains -/

theorem reachSeq_reach {h : H} (r : ReachSeq h) : Reach h := by
  induction r with
  | init => exact .init
  | step a _ he _ ih => exact .step a ih he

structure SInv (h : H) : Prop where
  s1 : ∀ i, i + 1 < h.n → h.ctlDone i = true
  s3 : ∀ j, h.ctlDone j = true → h.told j = true ∨ h.ctl = some j
  s4 : ∀ j, h.sent (j + 1) = true → h.told j = true

theorem sinv_apply (h : H) (a : Act) (I : HInv h) (S : SInv h) (he : enabled h a = true) (hs : seqOk h a = true) :
    SInv (apply h a) := by
  obtain ⟨s1, s3, s4⟩ := S
  cases a with
  | start =>
    simp only [seqOk, Bool.or_eq_true, decide_eq_true_eq] at hs
    refine ⟨?_, s3, s4⟩
    intro i hi
    simp only [apply] at hi
    by_cases e : i + 1 < h.n
    · exact s1 i e
    · have : i = h.n - 1 := by omega
      cases hs with
      | inl h0 => omega
      | inr h1 => rw [this]; exact h1
  | bind b => exact ⟨s1, s3, s4⟩
  | tell s k =>
    simp only [enabled, Bool.and_eq_true, Bool.not_eq_true', beq_iff_eq] at he
    obtain ⟨⟨hb, hsn⟩, hc⟩ := he
    refine ⟨s1, ?_, ?_⟩ <;> simp only [apply, upd_eq]
    · intro j hj
      left
      by_cases e : j = k
      · rw [if_pos e]
      · rw [if_neg e]
        cases s3 j hj with
        | inl ht => exact ht
        | inr hcj => rw [hc] at hcj; simp only [Option.some.injEq] at hcj; exact absurd hcj.symm e
    · intro j hj
      split at hj
      · -- j + 1 = s: the sender's predecessor
        rename_i e
        have hlt : j + 1 < h.n := by rw [e]; exact I.j0 s hb
        have hd := s1 j hlt
        cases s3 j hd with
        | inl ht => split <;> simp [ht]
        | inr hcj => rw [hc] at hcj; simp only [Option.some.injEq] at hcj; rw [if_pos hcj.symm]
      · have := s4 j hj
        split <;> simp [this]
  | sendNotFound k =>
    simp only [enabled, Bool.and_eq_true, Bool.not_eq_true', beq_iff_eq] at he
    refine ⟨s1, s3, ?_⟩
    simp only [apply, upd_eq]
    intro j hj
    split at hj
    · rename_i e
      have hlt : j + 1 < h.n := by rw [e]; exact I.j0 k he.1.1
      cases s3 j (s1 j hlt) with
      | inl ht => exact ht
      | inr hcj => rw [he.2] at hcj; cases hcj
    · exact s4 j hj
  | ctlBind k =>
    simp only [enabled, Bool.and_eq_true, Bool.not_eq_true'] at he
    have hkn : k < h.n := I.j0 k (I.j5 k he.1)
    have hk : k + 1 = h.n := by
      by_cases e : k + 1 < h.n
      · have := s1 k e; rw [he.2] at this; cases this
      · omega
    refine ⟨?_, ?_, s4⟩ <;> simp only [apply, upd_eq]
    · intro i hi; split
      · rfl
      · exact s1 i hi
    · intro j hj
      split at hj
      · rename_i e; right; rw [e]
      · rename_i e
        left
        have hjn : j < h.n := I.j0 j (I.j5 j (I.j7 j hj))
        by_cases e1 : j + 1 = k
        · exact s4 j (by rw [e1]; exact he.1)
        · have hlt : j + 1 + 1 < h.n := by omega
          exact s4 j (I.j7 _ (s1 (j + 1) hlt))
  | close k => exact ⟨s1, s3, s4⟩
  | finish k => exact ⟨s1, s3, s4⟩

theorem sinv_reach {h : H} (r : ReachSeq h) : SInv h := by
  induction r with
  | init => constructor <;> simp
  | step a r' he hs ih => exact sinv_apply _ a (inv_reach (reachSeq_reach r')) ih he hs

/-- **afterwards the control socket answers for the successor only**: in a chain of handovers of any length, once
the newest instance has finished starting, the socket path answers for it, and every earlier instance has been
told to shut down (so by `ctl_owner_not_told` none of them owns the path, and by C10 each drains and finishes). -/
theorem ctl_for_successor_only {h : H} (r : ReachSeq h) (hn : 0 < h.n) (hq : h.ctlDone (h.n - 1) = true) :
    h.ctl = some (h.n - 1) ∧ ∀ i, i + 1 < h.n → h.told i = true := by
  have I := inv_reach (reachSeq_reach r)
  have S := sinv_reach r
  have hall : ∀ i, i + 1 < h.n → h.told i = true := by
    intro i hi
    have : h.sent (i + 1) = true := by
      by_cases e : i + 1 = h.n - 1
      · rw [e]; exact I.j7 _ hq
      · exact I.j7 _ (S.s1 (i + 1) (by omega))
    exact S.s4 i this
  refine ⟨?_, hall⟩
  cases S.s3 _ hq with
  | inr hc => exact hc
  | inl ht =>
    obtain ⟨i, h1, h2, h3⟩ := I.j1 _ ht
    have hi := I.j0 i h2
    have := hall i (by omega)
    rw [h3] at this; cases this

/-! ### non-vacuity and sensitivity (tests of the model, labelled as such) -/
-- three instances, two handovers, fully sequential: a run of the protocol, always listening, newest owns the socket
example : runChecked {} [.start, .bind 0, .sendNotFound 0, .ctlBind 0, .start, .bind 1, .tell 1 0, .close 0, .ctlBind 1, .finish 0,
    .start, .bind 2, .tell 2 1, .ctlBind 2, .close 1] = some true := by decide
example : (run {} [.start, .bind 0, .sendNotFound 0, .ctlBind 0, .start, .bind 1, .tell 1 0, .close 0, .ctlBind 1, .finish 0]).map
    (fun h => (listeningNow h, h.ctl)) = some (true, some 1) := by decide
-- telling before binding (the pinned order, defect F15) is not a run of the repaired protocol
example : run {} [.start, .bind 0, .sendNotFound 0, .ctlBind 0, .start, .tell 1 0] = none := by decide
-- outside chains (a third instance started while the second is still starting) the socket can end up with the
-- older of two live instances: the `ReachSeq` hypothesis of `ctl_for_successor_only` is needed
example : (run {} [.start, .bind 0, .sendNotFound 0, .ctlBind 0, .start, .bind 1, .tell 1 0, .start, .bind 2, .sendNotFound 2,
    .ctlBind 2, .ctlBind 1]).map (fun h => (h.ctl, h.told 1, h.told 2)) = some (some 1, false, false) := by decide

end Handover
