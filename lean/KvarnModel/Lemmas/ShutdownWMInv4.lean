import KvarnModel.Lemmas.ShutdownWMInv
namespace ShutdownWM
set_option maxHeartbeats 3200000 in
theorem inv_callerNotify (s : S) (h : SInv s) (he : enabled s .callerNotify = true) : SInv (apply s .callerNotify) := by inv_case
set_option maxHeartbeats 3200000 in
theorem inv_hookAck (s : S) (h : SInv s) (he : enabled s .hookAck = true) : SInv (apply s .hookAck) := by inv_case
set_option maxHeartbeats 3200000 in
theorem inv_lRecheckT (s : S) (h : SInv s) (he : enabled s .lRecheckT = true) : SInv (apply s .lRecheckT) := by inv_case
set_option maxHeartbeats 3200000 in
theorem inv_lCountSpawn (s : S) (h : SInv s) (he : enabled s .lCountSpawn = true) : SInv (apply s .lCountSpawn) := by inv_case
set_option maxHeartbeats 3200000 in
theorem inv_cFinish (s : S) (h : SInv s) (he : enabled s .cFinish = true) : SInv (apply s .cFinish) := by inv_case
set_option maxHeartbeats 3200000 in
theorem inv_lRecheckKT (s : S) (h : SInv s) (he : enabled s .lRecheckKT = true) : SInv (apply s .lRecheckKT) := by inv_case
end ShutdownWM
