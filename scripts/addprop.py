#!/usr/bin/env python3
"""addprop.py Cxx <json-file>  — merge one property's metadata into props.json and regenerate MANIFEST.json"""
import json, sys, subprocess
p = json.load(open('/verif/scripts/props.json'))
p[sys.argv[1]] = json.load(open(sys.argv[2]))
json.dump(p, open('/verif/scripts/props.json', 'w'), indent=1)
subprocess.run(['python3', '/verif/scripts/gen_manifest.py'], check=True)
