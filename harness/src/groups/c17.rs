//! C17 — allow-ips / hide / *.private against every spelling, history and cache setting.
use crate::common::*;
use kvarn::prelude::*;

const FILES: [(&str, &str); 14] = [
    // a `cache` directive with a *duration* (and other keywords) after the guard
    ("ipscachedur.html", "!> allow-ips 10.0.0.1 &> cache server:300s\nSECRET-IPSD .................................................."),
    ("ipscacheqm.html", "!> allow-ips 10.0.0.1 &> cache server:query-matters client:full\nSECRET-IPSQ .................................................."),
    ("hidecache.html", "!> hide &> cache server:300s\nSECRET-HIDC .................................................."),
    // a directive nobody mounted stands before the guard (a misspelt one, one of a feature that is compiled out): the guard holds
    ("unkips.html", "!> site-badge gold &> allow-ips 10.0.0.1\nSECRET-UIPS .................................................."),
    ("unkhide.html", "!> zz &> hide &> zz2 x\nSECRET-UHID .................................................."),
    ("ips.html", "!> allow-ips 10.0.0.1\nSECRET-IPS .................................................."),
    ("ipscache.html", "!> allow-ips 10.0.0.1 &> cache server:full\nSECRET-IPSC .................................................."),
    ("cacheips.html", "!> cache server:full &> allow-ips 10.0.0.1\nSECRET-CIPS .................................................."),
    ("hidden.html", "!> hide\nSECRET-HIDDEN .................................................."),
    ("secret.private", "SECRET-PRIVATE .................................................."),
    ("plain.html", "PLAIN .................................................."),
    ("ipscrlf.html", "!> allow-ips 10.0.0.1\r\nSECRET-CRLF .................................................."),
    // a long list (41 addresses: the directive line is over 400 bytes), alone and with a directive behind it
    ("ipslong.html", "!> allow-ips 10.0.0.1 10.0.1.10 10.0.1.11 10.0.1.12 10.0.1.13 10.0.1.14 10.0.1.15 10.0.1.16 10.0.1.17 10.0.1.18 10.0.1.19 10.0.1.20 10.0.1.21 10.0.1.22 10.0.1.23 10.0.1.24 10.0.1.25 10.0.1.26 10.0.1.27 10.0.1.28 10.0.1.29 10.0.2.10 10.0.2.11 10.0.2.12 10.0.2.13 10.0.2.14 10.0.2.15 10.0.2.16 10.0.2.17 10.0.2.18 10.0.2.19 10.0.2.20 10.0.2.21 10.0.2.22 10.0.2.23 10.0.2.24 10.0.2.25 10.0.2.26 10.0.2.27 10.0.2.28 10.0.2.29\nSECRET-IPSL .................................................."),
    ("ipslongcache.html", "!> allow-ips 10.0.0.1 10.0.1.10 10.0.1.11 10.0.1.12 10.0.1.13 10.0.1.14 10.0.1.15 10.0.1.16 10.0.1.17 10.0.1.18 10.0.1.19 10.0.1.20 10.0.1.21 10.0.1.22 10.0.1.23 10.0.1.24 10.0.1.25 10.0.1.26 10.0.1.27 10.0.1.28 10.0.1.29 10.0.2.10 10.0.2.11 10.0.2.12 10.0.2.13 10.0.2.14 10.0.2.15 10.0.2.16 10.0.2.17 10.0.2.18 10.0.2.19 10.0.2.20 10.0.2.21 10.0.2.22 10.0.2.23 10.0.2.24 10.0.2.25 10.0.2.26 10.0.2.27 10.0.2.28 10.0.2.29 &> cache server:full\nSECRET-IPSLC .................................................."),
];

fn fixture(ctx: &Ctx) -> std::path::PathBuf {
    let root = ctx.work.join("site");
    std::fs::create_dir_all(root.join("public")).unwrap();
    for (n, c) in FILES {
        let f = root.join("public").join(n);
        if std::fs::read(&f).ok().as_deref() != Some(c.as_bytes()) {
            std::fs::write(&f, c).unwrap();
        }
    }
    root
}

/// a percent-encoded spelling of `path` with up to 3 encoded characters (any character, either hex case)
fn spelling(rng: &mut Rng, path: &str) -> String {
    let chars: Vec<char> = path.chars().collect();
    let k = rng.below(4);
    let mut enc: Vec<usize> = (0..k).map(|_| rng.range(1, chars.len() - 1)).collect();
    enc.sort();
    enc.dedup();
    let upper = rng.chance(1, 2);
    chars.iter().enumerate().map(|(i, c)| if enc.contains(&i) { if upper { format!("%{:02X}", *c as u8) } else { format!("%{:02x}", *c as u8) } } else { c.to_string() }).collect()
}

pub struct Hist {
    root: std::path::PathBuf,
}
impl Hist {
    pub fn new(ctx: &Ctx) -> Self {
        Hist { root: fixture(ctx) }
    }
}
impl Group for Hist {
    // a real server / real sockets with read timeouts: a failure counts if it shows again when the same case is re-run
    fn timing_sensitive(&self) -> bool {
        true
    }
    fn name(&self) -> &'static str {
        "c17.hist"
    }
    fn rule(&self) -> &'static str {
        "fixture files `!> allow-ips 10.0.0.1`, `!> <unmounted directive> &> allow-ips …`, `!> zz &> hide &> …`, `… &> cache server:full`, `… &> cache server:300s`, `… &> cache server:query-matters client:full`, `!> hide &> cache server:300s`, `!> cache server:full &> allow-ips …`, `!> hide`, x.private, CRLF variant, a plain file; histories of 3-10 GET/HEAD requests from 10.0.0.1 (listed) and other addresses (10.0.0.6, 10.0.0.7, and the listed one embedded in IPv6: `::10.0.0.1`, `::ffff:10.0.0.1`) — allowed first so that a wrongly cached positive answer would leak — for percent-encoded spellings with <= 3 encoded characters (any character incl. the dot and letters of the extension, either hex case), with Accept-Encoding / Range variation, response+file caches on/off; through handle_cache (the client address is its argument); status and content id compared with the model; oracle: the secret marker appears only in replies to the listed address and never for hidden/private files; non-trivial = a guarded file is requested by a non-listed address after a listed one"
    }
    fn parallel(&self) -> bool {
        false
    }
    fn generate(&self, ctx: &Ctx, rng: &mut Rng) -> Vec<String> {
        let n = if ctx.mode == Mode::Quick { 500 } else { 20_000 };
        let mut v = vec![
            format!("c17.hist 1 [1@{},6@{}]", hex(b"/ipscache.html"), hex(b"/ipscache.html")),
            format!("c17.hist 1 [1@{},6@{},1@{}]", hex(b"/ipscachedur.html"), hex(b"/ipscachedur.html"), hex(b"/ipscachedur.html")),
            format!("c17.hist 1 [1@{},6@{}]", hex(b"/ipscacheqm.html"), hex(b"/ipscacheqm.html")),
            format!("c17.hist 1 [1@{},6@{}]", hex(b"/hidecache.html"), hex(b"/hidecache.html")),
            format!("c17.hist 1 [6@{},6@{}]", hex(b"/secret%2Eprivate"), hex(b"/secret.privat%65")),
            format!("c17.hist 1 [1@{},6@{}]", hex(b"/cacheips.html"), hex(b"/cacheips%2ehtml")),
        ];
        for _ in 0..n {
            let focus = rng.below(FILES.len());
            let k = rng.range(3, 10);
            let evs = list((0..k).map(|i| {
                let f = if rng.chance(3, 4) { focus } else { rng.below(FILES.len()) };
                // 8, 9: the listed IPv4 address inside an IPv6 one (IPv4-compatible `::10.0.0.1`, IPv4-mapped `::ffff:10.0.0.1`) —
                // other addresses, not listed
                let addr = if i == 0 { 1 } else { *rng.pick(&[1usize, 6, 6, 7, 8, 9]) };
                format!("{addr}@{}", hex(spelling(rng, &format!("/{}", FILES[f].0)).as_bytes()))
            }));
            v.push(format!("c17.hist {} {evs}", b01(!rng.chance(1, 5))));
        }
        v
    }
    fn driver_line(&self, line: &str) -> String {
        let p: Vec<&str> = line.split(' ').collect();
        format!("c17.hist {}", p[2])
    }
    fn run_impl(&self, _ctx: &Ctx, line: &str) -> String {
        let p: Vec<&str> = line.split(' ').collect();
        let mut ext = Extensions::new();
        kvarn_extensions::mount_all(&mut ext);
        let mut host = Host::unsecure("localhost", self.root.to_str().unwrap(), ext, host::Options::default());
        host.limiter.disable();
        if p[1] == "0" {
            host.disable_response_cache();
            host.disable_fs_cache();
        }
        let rt = tokio::runtime::Builder::new_current_thread().enable_all().build().unwrap();
        let mut outs = Vec::new();
        let mut leak = None;
        for (i, ev) in parse_list(p[2]).unwrap().iter().enumerate() {
            let (a, raw) = ev.split_once('@').unwrap();
            let addr: SocketAddr = match a { "8" => "[::10.0.0.1]:5555".parse().unwrap(), "9" => "[::ffff:10.0.0.1]:5555".parse().unwrap(), _ => format!("10.0.0.{a}:5555").parse().unwrap() };
            let target = String::from_utf8(unhex(raw).unwrap()).unwrap();
            let mut b = Request::builder().method(if i % 4 == 3 { "HEAD" } else { "GET" }).uri(&target);
            if i % 3 == 1 { b = b.header("accept-encoding", "gzip, br"); }
            if i % 5 == 2 { b = b.header("range", "bytes=0-40"); }
            let mut req = b.body(kvarn::application::Body::Bytes(Bytes::new().into())).unwrap();
            let reply = rt.block_on(kvarn::handle_cache(&mut req, addr, &host));
            let body = String::from_utf8_lossy(&reply.identity_body).into_owned();
            let has_secret = body.contains("SECRET");
            let is_content = has_secret || body.contains("PLAIN");
            let st = reply.response.status().as_u16();
            outs.push(format!("{st}#{}", b01(is_content)));
            if has_secret && (a != "1" || body.contains("HIDDEN") || body.contains("PRIVATE")) && leak.is_none() {
                leak = Some(format!("request {i} ({target} from 10.0.0.{a}) got {}", body.split(' ').next().unwrap_or("")));
            }
        }
        match leak { None => list(outs), Some(l) => format!("{} LEAK {l}", list(outs)) }
    }
    fn oracle(&self, _ctx: &Ctx, line: &str, out: &str) -> Option<(String, String)> {
        if out.contains("LEAK") || out == "panic" { Some((format!("leak:{line}"), out.to_owned())) } else { None }
    }
    fn nontrivial(&self, line: &str, _o: &str) -> bool {
        line.contains("6@") || line.contains("7@")
    }
    fn classify(&self, l: &str, _o: &str) -> String {
        format!("cache={}", l.split(' ').nth(1).unwrap_or(""))
    }
}
