#!/usr/bin/env python3
"""check.py <Cxx> <quick|thorough> [--replay FILE]

The command registered in MANIFEST.json for every property (DESIGN §2).

 1. `lake build KvarnModel.Props.<Cxx> kvarn_model_driver`   — the kernel checks every theorem of the property
 2. axiom audit (`Lean.collectAxioms` on every theorem of the module) + forbidden-token grep;
    thorough: `leanchecker` re-check of the module
 3. `cargo build --release` of the harness — rebuilds kvarn from /repo's *working tree* (path deps)
 4. correspondence: real kvarn vs. compiled Lean model on generated cases, plus statement-level oracles
 5. verdict + /verif/evidence/<Cxx>.json

exit 0: property held on everything explored.  exit 1: `VIOLATION property=<id> replay=<path>` printed.
"""
import fcntl, json, os, re, subprocess, sys, time

# the directory this script's copy of the machinery lives in: /verif, or a snapshot of it (`vp run`)
VERIF = os.environ.get("VERIF_ROOT") or os.path.dirname(os.path.dirname(os.path.abspath(__file__)))
os.environ["VERIF_ROOT"] = VERIF
LEAN = f"{VERIF}/lean"
HARNESS = f"{VERIF}/harness"
ALLOWED_AXIOMS = {"propext", "Classical.choice", "Quot.sound"}
FORBIDDEN = re.compile(r"\bsorry\b|\badmit\b|^\s*axiom\s|native_decide|bv_decide|implemented_by|\bunsafe\s|maxHeartbeats\s+0\b")


def sh(cmd, cwd=None, timeout=None, env=None):
    e = dict(os.environ)
    e["CARGO_NET_OFFLINE"] = "true"
    if env:
        e.update(env)
    p = subprocess.run(cmd, cwd=cwd, shell=isinstance(cmd, str), stdout=subprocess.PIPE, stderr=subprocess.STDOUT,
                       text=True, timeout=timeout, env=e)
    return p.returncode, p.stdout


class Lock:
    def __init__(self, path):
        self.path = path

    def __enter__(self):
        self.f = open(self.path, "w")
        fcntl.flock(self.f, fcntl.LOCK_EX)

    def __exit__(self, *a):
        fcntl.flock(self.f, fcntl.LOCK_UN)
        self.f.close()


def strip_comments(text):
    # remove /- … -/ (nested) and -- … comments
    out, i, depth = [], 0, 0
    while i < len(text):
        if text.startswith("/-", i):
            depth += 1
            i += 2
        elif depth and text.startswith("-/", i):
            depth -= 1
            i += 2
        elif depth:
            if text[i] == "\n":
                out.append("\n")
            i += 1
        elif text.startswith("--", i):
            while i < len(text) and text[i] != "\n":
                i += 1
        else:
            out.append(text[i])
            i += 1
    return "".join(out)


def lean_sources():
    for root, _, files in os.walk(LEAN):
        if ".lake" in root or "/audit" in root:
            continue
        for f in files:
            if f.endswith(".lean"):
                yield os.path.join(root, f)


def forbidden_tokens():
    hits = []
    for p in lean_sources():
        for n, line in enumerate(strip_comments(open(p).read()).split("\n"), 1):
            if FORBIDDEN.search(line):
                hits.append(f"{p}:{n}: {line.strip()}")
    return hits


def load_props():
    return json.load(open(f"{VERIF}/scripts/props.json"))


def load_known(pid):
    known, fixed = [], []
    path = f"{VERIF}/KNOWN_FINDINGS.txt"
    if os.path.exists(path):
        for line in open(path):
            line = line.strip()
            m = re.match(r"known:\s+property=(\S+)\s+key=(\S+)\s+(.*)", line)
            if m and m.group(1) == pid:
                known.append((m.group(2), m.group(3)))
            m = re.match(r"fixed:\s+property=(\S+)\s+(.*)", line)
            if m and m.group(1) == pid:
                fixed.append(m.group(2))
    return known, fixed


def miri_group(cfg, broken, log):
    """Run the crate `cfg['crate']` (real kvarn code from /repo, path dependency) under Miri for `cfg['seeds']` schedules.
    Undefined behaviour (a data race, a dangling reference) or a failed assertion is a failing schedule; a crate that no
    longer compiles against /repo is a broken correspondence; a missing Miri toolchain is logged and skipped (supporting
    evidence only — the theorems do not depend on it)."""
    crate = f"{VERIF}/{cfg['crate']}"
    t0 = time.time()
    g = {"group": cfg["name"], "rule": cfg["rule"], "evaluations": 0, "compared_with_model": 0, "distinct_nontrivial": 0,
         "disagreements": [], "oracle_failures": [], "histogram": {}, "max_line_len": 0, "samples": [], "wall_s": 0}
    try:
        shutil.copy("/repo/Cargo.lock", f"{crate}/Cargo.lock")
    except Exception:
        pass
    for seed in range(cfg.get("seeds", 8)):
        env = dict(os.environ, MIRIFLAGS=f"-Zmiri-seed={seed}", CARGO_TARGET_DIR=f"{crate}/target", CARGO_NET_OFFLINE="true")
        with Lock(f"{VERIF}/.miri.lock"):
            rc, out = sh(["cargo", "+nightly", "miri", "run", "--offline", "--"] + cfg.get("args", []), cwd=crate, timeout=2400, env=env)
        line = f"{cfg['name']} seed={seed}"
        if "Undefined Behavior" in out or "panicked at" in out:
            i = out.find("Undefined Behavior") if "Undefined Behavior" in out else out.find("panicked at")
            what = " ".join(out[max(0, i - 20):i + 900].split())
            g["oracle_failures"].append({"key": f"miri:{cfg['name']}", "line": line, "what": what, "impl": f"MIRIFLAGS=-Zmiri-seed={seed} cargo +nightly miri run --offline (in {crate})"})
            g["histogram"]["undefined-behaviour"] = g["histogram"].get("undefined-behaviour", 0) + 1
            g["evaluations"] += 1
            break
        if cfg["ok_marker"] in out:
            g["evaluations"] += 1
            g["distinct_nontrivial"] += 1
            g["histogram"]["ok"] = g["histogram"].get("ok", 0) + 1
            if not g["samples"]:
                g["samples"].append({"line": line, "impl": cfg["ok_marker"]})
            continue
        if re.search(r"error(\[E\d+\])?: ", out) and ("could not compile" in out):
            errs = [l for l in out.split("\n") if l.startswith("error")]
            broken.append(("correspondence-build", f"{cfg['crate']} vs /repo working tree", "\n".join(errs[:10])))
            break
        log.append(f"miri: not available or did not run (rc={rc}): {' '.join(out[-300:].split())}")
        break
    g["wall_s"] = round(time.time() - t0, 1)
    log.append(f"miri {cfg['name']}: {g['histogram']}")
    return g


def main():
    pid, tier = sys.argv[1], sys.argv[2]
    replay_in = None
    if "--replay" in sys.argv:
        replay_in = sys.argv[sys.argv.index("--replay") + 1]
    seed = int(os.environ.get("VERIF_SEED", "1") or 1)
    t0 = time.time()
    props = load_props()
    meta = props[pid]
    modules = meta.get("modules", [f"KvarnModel.Props.{pid}"])
    os.makedirs(f"{VERIF}/evidence", exist_ok=True)
    os.makedirs(f"{VERIF}/replays/{pid}", exist_ok=True)
    if not replay_in:
        for f in os.listdir(f"{VERIF}/replays/{pid}"):
            if f.startswith(tier + "-"):
                os.remove(f"{VERIF}/replays/{pid}/{f}")
    outdir = f"{HARNESS}/target/out/{pid}-{tier}"
    os.makedirs(outdir, exist_ok=True)
    broken = []  # (kind, name, detail)
    log = []

    # 1. proofs
    theorems = []
    with Lock(f"{VERIF}/.lean.lock"):
        rc, out = sh(["lake", "build"] + modules + ["kvarn_model_driver"], cwd=LEAN, timeout=3000)
        if rc != 0:
            errs = [l for l in out.split("\n") if "error" in l]
            broken.append(("proof", ",".join(modules), "\n".join(errs[:20]) or out[-2000:]))
        else:
            # 2. audit
            for m in modules:
                os.makedirs(f"{LEAN}/audit", exist_ok=True)
                src = open(f"{VERIF}/scripts/audit_template.lean").read().replace("MODULE", m)
                ap = f"{LEAN}/audit/{m.split('.')[-1]}.lean"
                open(ap, "w").write(src)
                rc, out = sh(["lake", "env", "lean", ap], cwd=LEAN, timeout=900)
                if rc != 0:
                    broken.append(("audit", m, out[-2000:]))
                for line in out.split("\n"):
                    mm = re.match(r"THEOREM (\S+) AXIOMS ?(.*)", line)
                    if not mm:
                        continue
                    name, axs = mm.group(1), mm.group(2).split()
                    if re.search(r"\.(eq_\d+|eq_def|match_\d+|proof_\d+|congr_simp|induct|induct_unfolding|fun_cases|fun_cases_unfolding|sizeOf_spec|injEq|inj|noConfusion)", name) or "._" in name:
                        continue
                    theorems.append({"name": name, "axioms": axs})
                    bad = [a for a in axs if a not in ALLOWED_AXIOMS]
                    if bad:
                        broken.append(("axiom", name, "depends on " + " ".join(bad)))
            hits = forbidden_tokens()
            if hits:
                broken.append(("forbidden-token", "lean sources", "\n".join(hits[:10])))
            if tier == "thorough":
                for m in modules:
                    rc, out = sh(["lake", "env", "leanchecker", m], cwd=LEAN, timeout=3000)
                    log.append(f"leanchecker {m}: rc={rc}")
                    if rc != 0:
                        broken.append(("leanchecker", m, out[-2000:]))
    # also require the theorems the property is claimed by to exist
    have = {t["name"] for t in theorems}
    for need in meta.get("theorems", []):
        if need not in have and not any(b[0] == "proof" for b in broken):
            broken.append(("missing-theorem", need, "named property theorem is not in the module"))

    # 3. harness build (rebuilds kvarn from /repo's working tree)
    result = None
    with Lock(f"{VERIF}/.cargo.lock"):
        rc, out = sh(["cargo", "build", "--release", "--offline"], cwd=HARNESS, timeout=3000)
    if rc != 0:
        errs = [l for l in out.split("\n") if l.startswith("error")]
        broken.append(("correspondence-build", "harness vs /repo working tree", "\n".join(errs[:20]) or out[-2000:]))
    else:
        # 4. correspondence + oracles
        cmd = [f"{HARNESS}/target/release/kvarn-verif", pid, "--mode", tier, "--seed", str(seed), "--out", outdir]
        if replay_in:
            cmd += ["--replay", replay_in]
        try:
            os.remove(f"{outdir}/result.json")
        except FileNotFoundError:
            pass
        try:
            p = subprocess.run(cmd, cwd=HARNESS, stdout=subprocess.PIPE if not replay_in else None, stderr=subprocess.PIPE, text=True,
                               timeout=meta.get("timeout", 3400))
        except subprocess.TimeoutExpired as te:
            # must not happen (the harness keeps to its own per-group budgets); if it does, say so instead of crashing
            class P: returncode = -9; stderr = f"harness exceeded {te.timeout} s"
            p = P()
        sys.stderr.write(p.stderr[-6000:])
        if os.path.exists(f"{outdir}/result.json"):
            result = json.load(open(f"{outdir}/result.json"))
        else:
            broken.append(("correspondence-run", "kvarn-verif " + pid, f"harness produced no result (rc={p.returncode}): {p.stderr[-1500:]}"))

    # 4b. schedules of the real code under Miri (data-race / UB detector, weak-memory emulation), where the property has
    # such a crate: `miri` is one configuration or a list; `seeds` is a number (thorough only) or {"quick": n, "thorough": m}
    if meta.get("miri") and result is not None and not replay_in:
        cfgs = meta["miri"] if isinstance(meta["miri"], list) else [meta["miri"]]
        for cfg in cfgs:
            seeds = cfg.get("seeds", 8)
            n = seeds.get(tier, 0) if isinstance(seeds, dict) else (seeds if tier == "thorough" else 0)
            if n > 0:
                result["groups"].append(miri_group(dict(cfg, seeds=n, args=cfg.get("args_" + tier, cfg.get("args", []))), broken, log))

    # 5. verdict
    known, fixed = load_known(pid)
    violations = []
    known_seen = set()
    groups = result["groups"] if result else []
    n_dis = 0
    for g in groups:
        for f in g["oracle_failures"]:
            k = [kk for kk in known if re.fullmatch(kk[0], f["key"])]
            if k:
                known_seen.add(k[0])
                continue
            violations.append(("oracle", g["group"], f))
        n_dis += len(g["disagreements"])
    oracle_failed_groups = {v[1] for v in violations}
    for g in groups:
        for d in g["disagreements"]:
            violations.append(("disagreement", g["group"], d))
    for k in known:
        print(f"KNOWN-FINDING: property={pid} {k[1]}")

    lines = []
    nrep = 0
    any_input = any(v[0] == "oracle" for v in violations)
    for kind, gname, f in violations[:8]:
        nrep += 1
        rp = f"{VERIF}/replays/{pid}/{tier}-{nrep}.json"
        if kind == "oracle":
            rep = {"property": pid, "kind": "failing-input", "group": gname, "line": f["line"], "what": f["what"], "key": f["key"],
                   "observed": f.get("impl"), "seed": seed,
                   "replay_cmd": f"python3 {VERIF}/scripts/check.py {pid} quick --replay {rp}"}
            json.dump(rep, open(rp, "w"), indent=1)
            lines.append(f"VIOLATION property={pid} replay={rp}")
        else:
            rep = {"property": pid, "kind": "model-implementation-disagreement", "group": gname,
                   "broken": f"correspondence {gname}: the Lean model `{gname}` no longer predicts the implementation",
                   "line": f["line"], "impl": f.get("impl"), "model": f.get("model"), "seed": seed,
                   "theorems_no_longer_tied_to_code": meta.get("theorems", []),
                   "replay_cmd": f"python3 {VERIF}/scripts/check.py {pid} quick --replay {rp}"}
            json.dump(rep, open(rp, "w"), indent=1)
            if any_input:
                lines.append(f"VIOLATION property={pid} replay={rp}")
            else:
                lines.append(f"VIOLATION property={pid} replay={rp} no-failing-input-found")
    for kind, name, detail in broken:
        nrep += 1
        rp = f"{VERIF}/replays/{pid}/{tier}-{nrep}.json"
        rep = {"property": pid, "kind": "broken-" + kind, "broken": f"{kind}: {name}", "detail": detail, "seed": seed,
               "note": "proof obligation / correspondence no longer checks; the search (oracles of this run) "
                       + ("found a failing input, see the other replay files" if any_input else "found no failing input")}
        json.dump(rep, open(rp, "w"), indent=1)
        if any_input:
            lines.append(f"VIOLATION property={pid} replay={rp}")
        else:
            lines.append(f"VIOLATION property={pid} replay={rp} no-failing-input-found")
    for l in lines:
        print(l)

    # evidence
    proof_broken = any(b[0] in ("proof", "audit", "axiom", "forbidden-token", "leanchecker", "missing-theorem") for b in broken)
    obligations = len(theorems) if theorems else max(1, len(meta.get("theorems", [])))
    discharged = 0 if any(b[0] == "proof" for b in broken) else len([t for t in theorems if all(a in ALLOWED_AXIOMS for a in t["axioms"])])
    samples = []
    for g in groups:
        samples.extend(g["samples"][:2])
    if not samples:
        samples = [{"theorem": t["name"]} for t in theorems[:3]] or [{"note": "no case ran"}]
    cov = {
        "obligations": obligations,
        "discharged": discharged,
        "checker_cmd": f"cd {LEAN} && lake build {' '.join(modules)} kvarn_model_driver && lake env lean audit/{modules[0].split('.')[-1]}.lean"
                       + (f" && lake env leanchecker {' '.join(modules)}" if tier == "thorough" else ""),
        "trusted_base": [
            "Lean 4.33.0 kernel" + (" + leanchecker re-check" if tier == "thorough" else ""),
            "axioms used by the theorems of this property: " + (", ".join(sorted({a for t in theorems for a in t['axioms']})) or "none"),
            "hand-written Lean model tied to /repo's working tree by the correspondence run of this check (harness/ generators, canonicalisation, diff)",
            "Lean code generator + C toolchain for the compiled model driver",
        ] + meta.get("trusted", []),
        "theorems": theorems,
        "property_theorems": meta.get("theorems", []),
        "evaluations": sum(g["evaluations"] for g in groups),
        "compared_with_model": sum(g["compared_with_model"] for g in groups),
        "distinct_nontrivial": sum(g["distinct_nontrivial"] for g in groups),
        "disagreements_checked": sum(g["compared_with_model"] for g in groups),
        "model_disagreements": n_dis,
        "oracle_failures": sum(len(g["oracle_failures"]) for g in groups),
        "rule": " | ".join(f"{g['group']}: {g['rule']}" for g in groups),
        "groups": [dict({k: g[k] for k in ("group", "evaluations", "compared_with_model", "distinct_nontrivial", "histogram", "max_line_len", "wall_s")},
                        unreproduced_timing_failures=len(g.get("unreproduced_timing_failures", [])), dropped_by_budget=g.get("dropped_by_budget", 0)) for g in groups],
        "samples": samples,
        "known_findings_listed": [k[1] for k in known],
        "fixed_findings": fixed,
        "log": log,
        "exhaustive": False,
    }
    # runs in which an observed execution of the implementation was replayed in the model (C10: forced schedules,
    # C11: hook-event traces of instance chains)
    tv = sum(g["compared_with_model"] for g in groups if g["group"] in ("c10.scn", "c11.chain"))
    if tv:
        cov["traces_validated_against_impl"] = tv
    ev = {
        "property_id": pid, "tier": tier, "seed": seed, "level": "proof", "coverage": cov,
        "assumptions": meta.get("assumptions", []),
        "wall_s": round(time.time() - t0, 2),
        "violations": len(lines),
    }
    if not replay_in:
        json.dump(ev, open(f"{VERIF}/evidence/{pid}.json", "w"), indent=1)
    summary = f"[{pid} {tier}] theorems={len(theorems)} discharged={discharged} cases={cov['evaluations']} compared={cov['compared_with_model']} disagreements={n_dis} oracle_failures={cov['oracle_failures']} wall={ev['wall_s']}s"
    print(summary, file=sys.stderr)
    sys.exit(1 if lines else 0)


if __name__ == "__main__":
    main()
