import KvarnModel.QuerySplit
import KvarnModel.Props.C05b
/-! C02 — `utils::parse::query`: the split loop and the sorted insert never panic, for every byte string; the pair list
stays sorted by name; and for every name the pairs with that name are, in the order written, exactly the pairs of the
query string with that name (`query_render`). -/
namespace QuerySplit
open Rust BinSearch Vary

/-! ### the binary search stays inside the list, sorted or not -/

theorem bsLoop_range (f : Nat → Ordering) : ∀ fuel size base, 0 < size →
    base ≤ bsLoop f fuel size base ∧ bsLoop f fuel size base < base + size := by
  intro fuel
  induction fuel with
  | zero => intro size base h; simp [bsLoop]; omega
  | succ fuel ih =>
    intro size base h
    unfold bsLoop
    split
    · rename_i h1
      simp only
      by_cases hg : f (base + size / 2) = .gt
      · simp only [hg, if_true]
        have := ih (size - size / 2) base (by omega)
        omega
      · simp only [hg, if_false]
        have := ih (size - size / 2) (base + size / 2) (by omega)
        omega
    · omega

theorem search_le (f : Nat → Ordering) (n : Nat) : (search f n).1 ≤ n := by
  unfold search
  split
  · simp
  · rename_i hn
    have := bsLoop_range f n n 0 (by omega)
    simp only
    split <;> simp <;> omega

theorem indexOf_le (ps : List Pair) (name : Bytes) : (indexOf ps name).1 ≤ ps.length := search_le _ _

theorem iterToLast_le (ps : List Pair) (name : Bytes) (i : Nat) (h : i ≤ ps.length) :
    ∃ pos, iterToLast ps name i = some pos ∧ i ≤ pos ∧ pos ≤ ps.length := by
  unfold iterToLast
  simp only [h, if_true]
  refine ⟨_, rfl, by omega, ?_⟩
  have := (List.takeWhile_sublist (l := ps.drop i) (fun p : Pair => p.1 == name)).length_le
  simp only [List.length_drop] at this
  omega

/-- **`Query::insert` never panics** (the slice `pairs[index..]` and `Vec::insert(pos)` are in range), whatever the
list looks like -/
theorem insert_no_panic (ps : List Pair) (name value : Bytes) : ∃ ps', insert ps name value = some ps' := by
  obtain ⟨pos, h1, _, h3⟩ := iterToLast_le ps name _ (indexOf_le ps name)
  unfold insert
  rw [h1]
  simp [h3]

theorem flush_no_panic (q : Bytes) (st : St) (p : Nat) : ∃ ps, flush q st p = some ps := by
  unfold flush
  split
  · split
    · exact ⟨_, rfl⟩
    · exact insert_no_panic _ _ _
  · exact ⟨_, rfl⟩

theorem step_no_panic (q : Bytes) (st : St) (p : Nat) (b : UInt8) : ∃ st', step q st p b = some st' := by
  unfold step
  split
  · exact ⟨_, rfl⟩
  · split
    · obtain ⟨ps, h⟩ := flush_no_panic q st p
      rw [h]; exact ⟨_, rfl⟩
    · exact ⟨_, rfl⟩

theorem go_no_panic (q : Bytes) : ∀ (rest : Bytes) (st : St) (p : Nat), ∃ st', go q st p rest = some st' := by
  intro rest
  induction rest with
  | nil => intro st p; exact ⟨st, rfl⟩
  | cons b rest ih =>
    intro st p
    obtain ⟨st', h⟩ := step_no_panic q st p b
    unfold go
    rw [h]
    exact ih st' (p + 1)

/-- **C02, the query string: `parse::query` never panics**, for every byte string -/
theorem query_no_panic (q : Bytes) : ∃ ps, query q = some ps := by
  obtain ⟨st, h⟩ := go_no_panic q q ⟨0, 0, []⟩ 0
  unfold query
  rw [h]
  exact flush_no_panic q st q.length

/-! ### the list stays sorted by name, and a name's pairs stay in the order they were inserted -/

/-- ascending by name, equal names allowed -/
def Sorted (ps : List Pair) : Prop := List.Pairwise (fun a b => cmpBytes a.1 b.1 ≠ .gt) ps

theorem cmpBytes_eq : ∀ (a b : Bytes), cmpBytes a b = .eq → a = b := by
  intro a
  induction a with
  | nil => intro b h; cases b <;> simp_all [cmpBytes]
  | cons x xs ih =>
    intro b h
    cases b with
    | nil => simp [cmpBytes] at h
    | cons y ys =>
      simp only [cmpBytes] at h
      split at h
      · cases h
      · split at h
        · cases h
        · rename_i h1 h2
          rw [u8_eq_of_not_lt h1 h2, ih ys h]

theorem cmp_lt_le {a b c : Bytes} (h1 : cmpBytes a b = .lt) (h2 : cmpBytes b c ≠ .gt) : cmpBytes a c = .lt := by
  cases h : cmpBytes b c with
  | lt => exact cmpBytes_trans _ _ _ h1 h
  | eq => rw [← cmpBytes_eq _ _ h]; exact h1
  | gt => exact absurd h h2

theorem cmp_le_lt {a b c : Bytes} (h1 : cmpBytes a b ≠ .gt) (h2 : cmpBytes b c = .lt) : cmpBytes a c = .lt := by
  cases h : cmpBytes a b with
  | lt => exact cmpBytes_trans _ _ _ h h2
  | eq => rw [cmpBytes_eq _ _ h]; exact h2
  | gt => exact absurd h h1

theorem nameAt_lt (ps : List Pair) (i : Nat) (h : i < ps.length) : nameAt ps i = ps[i].1 := by
  simp [nameAt, List.getD_eq_getElem?_getD, List.getElem?_eq_getElem h]

theorem sorted_le (ps : List Pair) (hs : Sorted ps) (i j : Nat) (hij : i ≤ j) (hj : j < ps.length) :
    cmpBytes (nameAt ps i) (nameAt ps j) ≠ .gt := by
  by_cases e : i = j
  · subst e; rw [cmpBytes_refl]; simp
  · have := List.pairwise_iff_getElem.1 hs i j (by omega) hj (by omega)
    rw [nameAt_lt ps i (by omega), nameAt_lt ps j hj]; exact this

theorem sorted_mono (ps : List Pair) (hs : Sorted ps) (name : Bytes) :
    Mono (fun i => cmpBytes (nameAt ps i) name) ps.length := by
  intro i j hij hj
  have hle := sorted_le ps hs i j hij hj
  constructor
  · intro hg
    exact cmpBytes_swap _ _ (cmp_lt_le (cmpBytes_swap' _ _ hg) hle)
  · intro hl
    exact cmp_le_lt hle hl

/-- what `takeWhile` stops at, by index -/
theorem takeWhile_spec (p : α → Bool) : ∀ (l : List α),
    (∀ j, j < (l.takeWhile p).length → ∃ x, l[j]? = some x ∧ p x = true) ∧
    (∀ x, l[(l.takeWhile p).length]? = some x → p x = false) := by
  intro l
  induction l with
  | nil => simp
  | cons a l ih =>
    by_cases hp : p a = true
    · rw [List.takeWhile_cons_of_pos hp]
      constructor
      · intro j hj
        cases j with
        | zero => exact ⟨a, rfl, hp⟩
        | succ j => simpa using ih.1 j (by simpa using hj)
      · intro x hx
        exact ih.2 x (by simpa using hx)
    · rw [List.takeWhile_cons_of_neg hp]
      constructor
      · intro j hj; simp at hj
      · intro x hx
        simp at hx; subst hx; simpa using hp

/-- the place of a new pair: everything before it is not greater than the name, everything from it on is greater -/
structure PosOk (ps : List Pair) (name : Bytes) (pos : Nat) : Prop where
  le : pos ≤ ps.length
  low : ∀ i, i < pos → cmpBytes (nameAt ps i) name ≠ .gt
  high : ∀ i, pos ≤ i → i < ps.length → cmpBytes (nameAt ps i) name = .gt

theorem insertPos_ok (ps : List Pair) (hs : Sorted ps) (name : Bytes) :
    ∃ pos, iterToLast ps name (indexOf ps name).1 = some pos ∧ PosOk ps name pos := by
  have hm := sorted_mono ps hs name
  cases hg : indexOf ps name with
  | mk i found =>
    obtain ⟨pos, hpos, hip, hpl⟩ := iterToLast_le ps name i (by have := indexOf_le ps name; rw [hg] at this; exact this)
    refine ⟨pos, hpos, ?_⟩
    have hk : pos = i + ((ps.drop i).takeWhile (fun p => p.1 == name)).length := by
      unfold iterToLast at hpos
      split at hpos
      · exact (Option.some.inj hpos).symm
      · cases hpos
    have tw := takeWhile_spec (fun p : Pair => p.1 == name) (ps.drop i)
    cases found with
    | false =>
      obtain ⟨_, hlow, hhigh⟩ := search_not_found _ _ hm i hg
      -- nothing at or behind `i` has the name: the scan stops at once
      have hk0 : pos = i := by
        by_cases hlen : i < ps.length
        · have h0 := hhigh i (Nat.le_refl _) hlen
          simp only [nameAt_lt ps i hlen] at h0
          have hne : (ps[i].1 == name) = false := by
            apply Bool.eq_false_iff.2
            intro he
            rw [beq_iff_eq.1 he, cmpBytes_refl] at h0; cases h0
          have : (ps.drop i).takeWhile (fun p => p.1 == name) = [] := by
            rw [List.drop_eq_getElem_cons hlen, List.takeWhile_cons_of_neg (by simpa using hne)]
          rw [this] at hk; simpa using hk
        · omega
      subst hk0
      exact ⟨hpl, fun j hj => by rw [hlow j hj]; simp, hhigh⟩
    | true =>
      obtain ⟨hil, hieq⟩ := search_found _ _ hm i hg
      simp only [nameAt_lt ps i hil] at hieq
      have hin : ps[i].1 = name := cmpBytes_eq _ _ hieq
      refine ⟨hpl, ?_, ?_⟩
      · intro j hj
        by_cases hji : j < i
        · have := sorted_le ps hs j i (by omega) hil
          rw [nameAt_lt ps i hil, hin] at this; exact this
        · obtain ⟨x, hx, hpx⟩ := tw.1 (j - i) (by omega)
          rw [List.getElem?_drop, show i + (j - i) = j by omega] at hx
          have hjl : j < ps.length := by omega
          rw [List.getElem?_eq_getElem hjl] at hx
          rw [nameAt_lt ps j hjl, Option.some.inj hx, beq_iff_eq.1 hpx, cmpBytes_refl]; simp
      · intro j hj hjl
        have hposl : pos < ps.length := by omega
        have hstop := tw.2 ps[pos] (by
          rw [List.getElem?_drop, ← hk, List.getElem?_eq_getElem hposl])
        have hne : ps[pos].1 ≠ name := by
          intro he; simp [he] at hstop
        have hipos : i < pos := by
          rcases Nat.lt_or_ge i pos with h | h
          · exact h
          · have : pos = i := by omega
            subst this; exact absurd hin hne
        have h1 := sorted_le ps hs i pos (by omega) hposl
        rw [nameAt_lt ps i hil, nameAt_lt ps pos hposl, hin] at h1
        have h2 : cmpBytes name ps[pos].1 = .lt := by
          cases h : cmpBytes name ps[pos].1 with
          | lt => rfl
          | eq => exact absurd (cmpBytes_eq _ _ h).symm hne
          | gt => exact absurd h h1
        have h3 := sorted_le ps hs pos j hj hjl
        rw [nameAt_lt ps pos hposl] at h3
        exact cmpBytes_swap _ _ (cmp_lt_le h2 h3)

theorem mem_take_idx (ps : List Pair) (pos : Nat) (a : Pair) (h : a ∈ ps.take pos) :
    ∃ i, i < pos ∧ i < ps.length ∧ nameAt ps i = a.1 := by
  obtain ⟨i, hi, hia⟩ := List.getElem_of_mem h
  simp only [List.length_take] at hi
  rw [List.getElem_take] at hia
  exact ⟨i, by omega, by omega, by rw [nameAt_lt ps i (by omega), hia]⟩

theorem mem_drop_idx (ps : List Pair) (pos : Nat) (a : Pair) (h : a ∈ ps.drop pos) :
    ∃ i, pos ≤ i ∧ i < ps.length ∧ nameAt ps i = a.1 := by
  obtain ⟨j, hj, hja⟩ := List.getElem_of_mem h
  simp only [List.length_drop] at hj
  rw [List.getElem_drop] at hja
  exact ⟨pos + j, by omega, by omega, by rw [nameAt_lt ps (pos + j) (by omega), hja]⟩

/-- inserting where `iterate_to_last` says keeps the list sorted … -/
theorem insert_sorted (ps : List Pair) (hs : Sorted ps) (name value : Bytes) :
    ∃ ps', insert ps name value = some ps' ∧ Sorted ps' ∧
      ∀ x : Bytes, ps'.filter (fun p => p.1 == x) =
        ps.filter (fun p => p.1 == x) ++ (if name == x then [(name, value)] else []) := by
  obtain ⟨pos, hpos, ok⟩ := insertPos_ok ps hs name
  refine ⟨ps.take pos ++ (name, value) :: ps.drop pos, ?_, ?_, ?_⟩
  · unfold insert; rw [hpos]; simp [ok.le]
  · unfold Sorted
    rw [List.pairwise_append]
    refine ⟨List.Pairwise.sublist (List.take_sublist _ _) hs, ?_, ?_⟩
    · rw [List.pairwise_cons]
      refine ⟨?_, List.Pairwise.sublist (List.drop_sublist _ _) hs⟩
      intro e he
      obtain ⟨i, h1, h2, h3⟩ := mem_drop_idx ps pos e he
      have := ok.high i h1 h2
      rw [h3] at this
      rw [cmpBytes_swap' _ _ this]; simp
    · intro a ha b hb
      obtain ⟨i, h1, h2, h3⟩ := mem_take_idx ps pos a ha
      have hlow := ok.low i h1
      rw [h3] at hlow
      simp only [List.mem_cons] at hb
      rcases hb with rfl | hb
      · exact hlow
      · obtain ⟨j, g1, g2, g3⟩ := mem_drop_idx ps pos b hb
        have := ok.high j g1 g2
        rw [g3] at this
        rw [cmp_le_lt hlow (cmpBytes_swap' _ _ this)]; simp
  · intro x
    have hsplit : ps.filter (fun p => p.1 == x) =
        (ps.take pos).filter (fun p => p.1 == x) ++ (ps.drop pos).filter (fun p => p.1 == x) := by
      rw [← List.filter_append, List.take_append_drop]
    rw [List.filter_append, List.filter_cons, hsplit]
    by_cases hx : name = x
    · subst hx
      have hnone : (ps.drop pos).filter (fun p => p.1 == name) = [] := by
        rw [List.filter_eq_nil_iff]
        intro e he
        obtain ⟨i, h1, h2, h3⟩ := mem_drop_idx ps pos e he
        have := ok.high i h1 h2
        rw [h3] at this
        intro hc
        rw [beq_iff_eq.1 hc, cmpBytes_refl] at this; cases this
      simp [hnone]
    · have : (name == x) = false := by simpa using hx
      simp [this]

/-- `map.insert` for every pair in turn -/
def insertAll : List Pair → List Pair → Option (List Pair)
  | acc, [] => some acc
  | acc, (n, v) :: rest =>
    match insert acc n v with
    | none => none
    | some acc' => insertAll acc' rest

/-- **a name's values are kept in the order they were inserted**, whatever other names come in between -/
theorem insertAll_spec : ∀ (kvs acc : List Pair), Sorted acc →
    ∃ ps, insertAll acc kvs = some ps ∧ Sorted ps ∧
      ∀ x : Bytes, ps.filter (fun p => p.1 == x) = acc.filter (fun p => p.1 == x) ++ kvs.filter (fun p => p.1 == x) := by
  intro kvs
  induction kvs with
  | nil => intro acc hs; exact ⟨acc, rfl, hs, by simp⟩
  | cons kv kvs ih =>
    intro acc hs
    obtain ⟨n, v⟩ := kv
    obtain ⟨acc', h1, h2, h3⟩ := insert_sorted acc hs n v
    obtain ⟨ps, g1, g2, g3⟩ := ih acc' h2
    refine ⟨ps, by simp only [insertAll, h1]; exact g1, g2, ?_⟩
    intro x
    rw [g3 x, h3 x, List.filter_cons]
    by_cases hx : n = x
    · subst hx; simp
    · have : (n == x) = false := by simpa using hx
      simp [this]

/-! ### the split loop reads `name=value&name=value…` as its pairs -/

/-- a piece without `=` and `&` -/
def Plain (l : Bytes) : Prop := ∀ b ∈ l, b ≠ EQ ∧ b ≠ AMP

def renderPair (p : Pair) : Bytes := p.1 ++ EQ :: p.2

/-- the query string of a list of pairs -/
def render : List Pair → Bytes
  | [] => []
  | [p] => renderPair p
  | p :: p' :: ps => renderPair p ++ AMP :: render (p' :: ps)

/-- names are not empty, and neither names nor values contain a raw `=` or `&` (they may be percent-encoded) -/
def WF (kvs : List Pair) : Prop := ∀ p ∈ kvs, p.1 ≠ [] ∧ Plain p.1 ∧ Plain p.2

/-- both halves percent-decoded, as `query` stores them -/
def dec (p : Pair) : Pair := (Sanitize.percentDecode p.1, Sanitize.percentDecode p.2)

theorem go_plain (q : Bytes) (st : St) : ∀ (xs rest : Bytes) (p : Nat), Plain xs →
    go q st p (xs ++ rest) = go q st (p + xs.length) rest := by
  intro xs
  induction xs with
  | nil => intro rest p _; simp
  | cons b xs ih =>
    intro rest p hp
    have hb := hp b (by simp)
    have hstep : step q st p b = some st := by
      unfold step; simp [hb.1, hb.2]
    rw [List.cons_append, go, hstep]
    simp only
    rw [ih rest (p + 1) (fun c hc => hp c (by simp [hc]))]
    simp only [List.length_cons]
    congr 1; omega

/-- the loop over one `name=value`: only `valueStart` changes -/
theorem go_pair (q : Bytes) (k v rest acc : _) (ps vs p : Nat) (hk : Plain k) (hv : Plain v) :
    go q ⟨ps, vs, acc⟩ p (k ++ EQ :: (v ++ rest)) =
      go q ⟨ps, p + k.length + 1, acc⟩ (p + k.length + 1 + v.length) rest := by
  rw [go_plain q _ k _ p hk, go]
  have : step q ⟨ps, vs, acc⟩ (p + k.length) EQ = some ⟨ps, p + k.length + 1, acc⟩ := by
    unfold step; simp
  rw [this]
  simp only
  rw [go_plain q _ v rest _ hv]

/-- … and the pair that ends there is the one that was written -/
theorem flush_pair (pre k v rest : Bytes) (acc : List Pair) (hk : k ≠ []) :
    flush (pre ++ (k ++ EQ :: (v ++ rest))) ⟨pre.length, pre.length + k.length + 1, acc⟩
        (pre.length + k.length + 1 + v.length) =
      insert acc (Sanitize.percentDecode k) (Sanitize.percentDecode v) := by
  have h1 : sliceGet (pre ++ (k ++ EQ :: (v ++ rest))) pre.length (pre.length + k.length + 1 - 1) = some k := by
    unfold sliceGet
    have : pre.length ≤ pre.length + k.length + 1 - 1 ∧
        pre.length + k.length + 1 - 1 ≤ (pre ++ (k ++ EQ :: (v ++ rest))).length := by
      simp only [List.length_append, List.length_cons]; omega
    rw [if_pos this, List.drop_left, show pre.length + k.length + 1 - 1 - pre.length = k.length by omega,
      List.take_left]
  have h2 : sliceGet (pre ++ (k ++ EQ :: (v ++ rest))) (pre.length + k.length + 1)
      (pre.length + k.length + 1 + v.length) = some v := by
    unfold sliceGet
    have : pre.length + k.length + 1 ≤ pre.length + k.length + 1 + v.length ∧
        pre.length + k.length + 1 + v.length ≤ (pre ++ (k ++ EQ :: (v ++ rest))).length := by
      simp only [List.length_append, List.length_cons]; omega
    rw [if_pos this]
    have e : pre ++ (k ++ EQ :: (v ++ rest)) = (pre ++ k ++ [EQ]) ++ (v ++ rest) := by simp
    rw [e, List.drop_left' (by simp only [List.length_append, List.length_cons, List.length_nil]),
      show pre.length + k.length + 1 + v.length - (pre.length + k.length + 1) = v.length by omega, List.take_left]
  unfold flush
  simp only [h1, h2]
  have : k.isEmpty = false := by cases k <;> simp_all
  simp [this]

theorem render_cons2 (p p' : Pair) (ps : List Pair) :
    render (p :: p' :: ps) = p.1 ++ EQ :: (p.2 ++ AMP :: render (p' :: ps)) := by
  simp [render, renderPair]

/-- **the loop and the block behind it insert exactly the written pairs, in order** -/
theorem go_render : ∀ (kvs : List Pair), kvs ≠ [] → WF kvs → ∀ (pre : Bytes) (vs : Nat) (acc : List Pair),
    (match go (pre ++ render kvs) ⟨pre.length, vs, acc⟩ pre.length (render kvs) with
      | none => none
      | some st => flush (pre ++ render kvs) st (pre ++ render kvs).length) = insertAll acc (kvs.map dec) := by
  intro kvs
  induction kvs with
  | nil => intro h; exact absurd rfl h
  | cons p kvs ih =>
    intro _ hwf pre vs acc
    obtain ⟨hk, hpk, hpv⟩ := hwf p (by simp)
    obtain ⟨k, v⟩ := p
    simp only at hk hpk hpv
    cases kvs with
    | nil =>
      have hr : render [(k, v)] = k ++ EQ :: (v ++ []) := by simp [render, renderPair]
      rw [hr, go_pair _ k v [] acc _ vs _ hpk hpv, go]
      simp only
      have hl : (pre ++ (k ++ EQ :: (v ++ []))).length = pre.length + k.length + 1 + v.length := by
        simp only [List.length_append, List.length_cons, List.length_nil]; omega
      rw [hl, flush_pair pre k v [] acc hk]
      simp only [List.map, insertAll, dec]
      cases insert acc (Sanitize.percentDecode k) (Sanitize.percentDecode v) <;> rfl
    | cons p' ps =>
      rw [render_cons2]
      simp only
      rw [go_pair _ k v _ acc _ vs _ hpk hpv, go]
      have hstep : step (pre ++ (k ++ EQ :: (v ++ AMP :: render (p' :: ps)))) ⟨pre.length, pre.length + k.length + 1, acc⟩
          (pre.length + k.length + 1 + v.length) AMP =
          (match insert acc (Sanitize.percentDecode k) (Sanitize.percentDecode v) with
            | none => none
            | some a => some ⟨pre.length + k.length + 1 + v.length + 1, pre.length + k.length + 1, a⟩) := by
        unfold step
        rw [if_neg (by decide), if_pos rfl, flush_pair pre k v _ acc hk]
        cases insert acc (Sanitize.percentDecode k) (Sanitize.percentDecode v) <;> rfl
      rw [hstep]
      simp only [List.map, insertAll, dec]
      cases hins : insert acc (Sanitize.percentDecode k) (Sanitize.percentDecode v) with
      | none => rfl
      | some acc' =>
        simp only
        have hwf' : WF (p' :: ps) := fun x hx => hwf x (by simp [hx])
        have := ih (by simp) hwf' (pre ++ (k ++ EQ :: (v ++ [AMP]))) (pre.length + k.length + 1) acc'
        have e : pre ++ (k ++ EQ :: (v ++ [AMP])) ++ render (p' :: ps) =
            pre ++ (k ++ EQ :: (v ++ AMP :: render (p' :: ps))) := by simp
        have el : (pre ++ (k ++ EQ :: (v ++ [AMP]))).length = pre.length + k.length + 1 + v.length + 1 := by
          simp only [List.length_append, List.length_cons, List.length_nil]; omega
        rw [e, el] at this
        simpa [dec, insertAll] using this

/-- **C02 / the query helpers, read back**: for every list of pairs whose names are not empty and whose names and
values carry no raw `=` or `&`, `parse::query` of `name=value&name=value…` does not panic, yields a list sorted by
name, and for every name the pairs stored under it are the written pairs with that (decoded) name, in the order
written — whatever other names stand in between. -/
theorem query_render (kvs : List Pair) (h : WF kvs) :
    ∃ ps, query (render kvs) = some ps ∧ Sorted ps ∧
      ∀ x : Bytes, ps.filter (fun p => p.1 == x) = (kvs.map dec).filter (fun p => p.1 == x) := by
  have hs0 : Sorted [] := List.Pairwise.nil
  obtain ⟨ps, h1, h2, h3⟩ := insertAll_spec (kvs.map dec) [] hs0
  refine ⟨ps, ?_, h2, by simpa using h3⟩
  cases kvs with
  | nil => simp [insertAll] at h1; subst h1; decide
  | cons p kvs =>
    have := go_render (p :: kvs) (by simp) h [] 0 []
    simp only [List.nil_append, List.length_nil] at this
    unfold query
    cases hgo : go (render (p :: kvs)) ⟨0, 0, []⟩ 0 (render (p :: kvs)) with
    | none => rw [hgo] at this; simp only at this; rw [← this] at h1; cases h1
    | some st => rw [hgo] at this; simp only at this ⊢; rw [this]; exact h1

/-- the premises are satisfiable and the statement is not trivial: `b=1&a=x&b=2&a=%79` -/
example : WF [([98], [49]), ([97], [120]), ([98], [50]), ([97], [37, 55, 57])] := by
  simp [WF, Plain, EQ, AMP]
example : query (render [([98], [49]), ([97], [120]), ([98], [50]), ([97], [37, 55, 57])]) =
      some [([97], [120]), ([97], [121]), ([98], [49]), ([98], [50])] := by decide

/-! ### `get_all(name)`: the range `ensure_bounds` finds is the block of the name -/

theorem filter_block (p : α → Bool) (l : List α) (a e : Nat) (hae : a ≤ e)
    (hin : ∀ x ∈ (l.drop a).take (e - a), p x = true) (hout1 : ∀ x ∈ l.take a, p x = false)
    (hout2 : ∀ x ∈ l.drop e, p x = false) : l.filter p = (l.drop a).take (e - a) := by
  have h1 : l = l.take a ++ ((l.drop a).take (e - a) ++ l.drop e) := by
    have : (l.drop a).drop (e - a) = l.drop e := by rw [List.drop_drop]; congr 1; omega
    rw [← this, List.take_append_drop, List.take_append_drop]
  have f1 : (l.take a).filter p = [] := by
    rw [List.filter_eq_nil_iff]; intro x hx; simp [hout1 x hx]
  have f2 : (l.drop e).filter p = [] := by
    rw [List.filter_eq_nil_iff]; intro x hx; simp [hout2 x hx]
  have f3 : ((l.drop a).take (e - a)).filter p = (l.drop a).take (e - a) := by
    rw [List.filter_eq_self]; exact hin
  conv => lhs; rw [h1]
  rw [List.filter_append, List.filter_append, f1, f2, f3]; simp

theorem mem_mid_idx (ps : List Pair) (a e : Nat) (x : Pair) (h : x ∈ (ps.drop a).take (e - a)) :
    ∃ i, a ≤ i ∧ i < e ∧ i < ps.length ∧ nameAt ps i = x.1 := by
  obtain ⟨j, hj, hjx⟩ := List.getElem_of_mem h
  simp only [List.length_take, List.length_drop] at hj
  rw [List.getElem_take, List.getElem_drop] at hjx
  exact ⟨a + j, by omega, by omega, by omega, by rw [nameAt_lt ps (a + j) (by omega), hjx]⟩

/-- **`get_all(name)` walks exactly the pairs with that name**, in list order, for every sorted pair list -/
theorem getAll_eq_filter (ps : List Pair) (hs : Sorted ps) (name : Bytes) :
    getAll ps name = some (ps.filter (fun p => p.1 == name)) := by
  have hm := sorted_mono ps hs name
  unfold getAll bounds
  cases hg : indexOf ps name with
  | mk i found =>
    cases found with
    | false =>
      obtain ⟨_, hlow, hhigh⟩ := search_not_found _ _ hm i hg
      simp only [Option.map, QueryIter.slice]
      congr 1
      symm
      simp only [Nat.sub_self, List.take_zero]
      rw [List.filter_eq_nil_iff]
      intro x hx hc
      obtain ⟨j, hj, hjx⟩ := List.getElem_of_mem hx
      have hn : nameAt ps j = name := by rw [nameAt_lt ps j hj, hjx]; exact beq_iff_eq.1 hc
      by_cases hji : j < i
      · have := hlow j hji; rw [hn, cmpBytes_refl] at this; cases this
      · have := hhigh j (by omega) hj; rw [hn, cmpBytes_refl] at this; cases this
    | true =>
      obtain ⟨hil, hieq⟩ := search_found _ _ hm i hg
      simp only [nameAt_lt ps i hil] at hieq
      have hin : ps[i].1 = name := cmpBytes_eq _ _ hieq
      -- the end is the insert position
      obtain ⟨e, he, ok⟩ := insertPos_ok ps hs name
      rw [hg] at he
      simp only at he
      have hie : i < e := by
        rcases Nat.lt_or_ge i e with h | h
        · exact h
        · have := ok.high i h hil
          rw [nameAt_lt ps i hil, hin, cmpBytes_refl] at this; cases this
      have twe := takeWhile_spec (fun p : Pair => p.1 == name) (ps.drop i)
      have hek : e = i + ((ps.drop i).takeWhile (fun p => p.1 == name)).length := by
        unfold iterToLast at he
        split at he
        · exact (Option.some.inj he).symm
        · cases he
      -- the start
      have tw := takeWhile_spec (fun p : Pair => p.1 == name) (ps.take i).reverse
      have hr : ((ps.take i).reverse.takeWhile (fun p => p.1 == name)).length ≤ i := by
        have := (List.takeWhile_sublist (l := (ps.take i).reverse) (fun p : Pair => p.1 == name)).length_le
        simp only [List.length_reverse, List.length_take] at this
        omega
      have hfirst : iterToFirst ps name i =
          some (i - ((ps.take i).reverse.takeWhile (fun p => p.1 == name)).length) := by
        unfold iterToFirst; rw [if_pos (by omega)]
      simp only [hfirst, he, Option.map, QueryIter.slice]
      congr 1
      symm
      generalize hrdef : ((ps.take i).reverse.takeWhile (fun p => p.1 == name)).length = r at *
      have hrev : ∀ j, j < i → (ps.take i).reverse[j]? = ps[i - 1 - j]? := by
        intro j hj
        rw [List.getElem?_reverse (by simp only [List.length_take]; omega)]
        simp only [List.length_take]
        rw [List.getElem?_take_of_lt (by omega)]
        congr 1; omega
      apply filter_block _ ps (i - r) e (by omega)
      · intro x hx
        obtain ⟨j, h1, h2, h3, h4⟩ := mem_mid_idx ps _ _ x hx
        by_cases hji : j < i
        · obtain ⟨y, hy, hpy⟩ := tw.1 (i - 1 - j) (by omega)
          rw [hrev _ (by omega), show i - 1 - (i - 1 - j) = j by omega, List.getElem?_eq_getElem h3] at hy
          rw [← h4, nameAt_lt ps j h3, Option.some.inj hy]; exact hpy
        · obtain ⟨y, hy, hpy⟩ := twe.1 (j - i) (by omega)
          rw [List.getElem?_drop, show i + (j - i) = j by omega, List.getElem?_eq_getElem h3] at hy
          rw [← h4, nameAt_lt ps j h3, Option.some.inj hy]; exact hpy
      · intro x hx
        obtain ⟨j, h1, h2, h3⟩ := mem_take_idx ps _ x hx
        -- the element just before the block stopped the backwards scan, so it is smaller, and so is everything before
        have hb : i - r - 1 < ps.length := by omega
        have hstop := tw.2 ps[i - r - 1] (by
          rw [hrev r (by omega), show i - 1 - r = i - r - 1 by omega, List.getElem?_eq_getElem hb])
        have hne : ps[i - r - 1].1 ≠ name := by intro he'; simp [he'] at hstop
        have h5 := sorted_le ps hs (i - r - 1) i (by omega) hil
        rw [nameAt_lt ps _ hb, nameAt_lt ps i hil, hin] at h5
        have h6 : cmpBytes ps[i - r - 1].1 name = .lt := by
          cases h : cmpBytes ps[i - r - 1].1 name with
          | lt => rfl
          | eq => exact absurd (cmpBytes_eq _ _ h) hne
          | gt => exact absurd h h5
        have h7 := sorted_le ps hs j (i - r - 1) (by omega) hb
        rw [nameAt_lt ps _ hb] at h7
        have h8 := cmp_le_lt h7 h6
        rw [h3] at h8
        apply Bool.eq_false_iff.2
        intro hc
        rw [beq_iff_eq.1 hc, cmpBytes_refl] at h8; cases h8
      · intro x hx
        obtain ⟨j, h1, h2, h3⟩ := mem_drop_idx ps _ x hx
        have := ok.high j h1 h2
        rw [h3] at this
        apply Bool.eq_false_iff.2
        intro hc
        rw [beq_iff_eq.1 hc, cmpBytes_refl] at this; cases this

/-- **C02 / the query helpers, end to end**: `parse::query` of `name=value&…` followed by `get_all(x)` does not panic
and yields the written pairs named `x` (after percent-decoding), in the order written. With `QueryIter.drive_exact`
(`get_first`, `get_last`, `get`, and every mixed sequence of `next`/`next_back` hand out a prefix and a suffix of that
range) this is the statement for every accessor. -/
theorem get_all_render (kvs : List Pair) (h : WF kvs) (x : Bytes) :
    ∃ ps, query (render kvs) = some ps ∧
      getAll ps x = some ((kvs.map dec).filter (fun p => p.1 == x)) := by
  obtain ⟨ps, h1, h2, h3⟩ := query_render kvs h
  exact ⟨ps, h1, by rw [getAll_eq_filter ps h2 x, h3 x]⟩

/-! ### `Display` and back -/

theorem display_eq_render : ∀ (ps : List Pair), display ps = render ps
  | [] => rfl
  | [_] => rfl
  | p :: p' :: ps => by
    simp only [display, render, renderPair, List.append_assoc, List.cons_append]
    rw [display_eq_render (p' :: ps)]

/-- inserting the pairs of a sorted list one after the other rebuilds the list: each goes behind everything stored -/
theorem insertAll_sorted : ∀ (rest acc : List Pair), Sorted (acc ++ rest) → insertAll acc rest = some (acc ++ rest) := by
  intro rest
  induction rest with
  | nil => intro acc _; simp [insertAll]
  | cons kv rest ih =>
    intro acc hs
    obtain ⟨n, v⟩ := kv
    have hacc : Sorted acc := List.Pairwise.sublist (List.sublist_append_left acc _) hs
    obtain ⟨pos, hpos, ok⟩ := insertPos_ok acc hacc n
    -- everything stored is not greater than the new name: the place is the end
    have hall : ∀ i, i < acc.length → cmpBytes (nameAt acc i) n ≠ .gt := by
      intro i hi
      have hp := List.pairwise_append.1 hs
      have := hp.2.2 acc[i] (List.getElem_mem hi) (n, v) (by simp)
      rw [nameAt_lt acc i hi]; exact this
    have hend : pos = acc.length := by
      rcases Nat.lt_or_ge pos acc.length with h | h
      · exact absurd (ok.high pos (Nat.le_refl _) h) (hall pos h)
      · have := ok.le; omega
    subst hend
    have hins : insert acc n v = some (acc ++ [(n, v)]) := by
      unfold insert; rw [hpos]; simp
    simp only [insertAll, hins]
    have := ih (acc ++ [(n, v)]) (by simpa using hs)
    simpa using this

theorem pdecodeS_plain : ∀ (l : Bytes), (∀ b ∈ l, b ≠ Sanitize.PCT) → Sanitize.pdecodeS 0 l = l := by
  intro l
  induction l with
  | nil => intro _; rfl
  | cons c rest ih =>
    intro h
    have hc := h c (by simp)
    simp only [Sanitize.pdecodeS, hc, if_false]
    rw [ih (fun b hb => h b (by simp [hb]))]

/-- without a `%` nothing is decoded -/
theorem percentDecode_plain (l : Bytes) (h : ∀ b ∈ l, b ≠ Sanitize.PCT) : Sanitize.percentDecode l = l := by
  unfold Sanitize.percentDecode Sanitize.pdecode
  rw [pdecodeS_plain l h]
  simp

/-- **`Display` and `parse::query` are inverse to each other** on what `query` produces from unescaped input: for every
pair list sorted by name whose names are not empty and whose names and values hold no `=`, `&`, `%`,
`query(to_string(pairs)) = pairs` -/
theorem query_display_roundtrip (ps : List Pair) (hs : Sorted ps) (hw : WF ps)
    (hp : ∀ p ∈ ps, (∀ b ∈ p.1, b ≠ Sanitize.PCT) ∧ (∀ b ∈ p.2, b ≠ Sanitize.PCT)) :
    query (display ps) = some ps := by
  have hmap : ps.map dec = ps := by
    have : ∀ p ∈ ps, dec p = p := by
      intro p hpm
      obtain ⟨h1, h2⟩ := hp p hpm
      simp only [dec, percentDecode_plain p.1 h1, percentDecode_plain p.2 h2]
    calc ps.map dec = ps.map id := List.map_congr_left this
      _ = ps := by simp
  rw [display_eq_render]
  cases ps with
  | nil => decide
  | cons p rest =>
    have := go_render (p :: rest) (by simp) hw [] 0 []
    simp only [List.nil_append, List.length_nil] at this
    rw [hmap, insertAll_sorted (p :: rest) [] (by simpa using hs)] at this
    simp only [List.nil_append] at this
    unfold query
    cases hgo : go (render (p :: rest)) ⟨0, 0, []⟩ 0 (render (p :: rest)) with
    | none => rw [hgo] at this; simp at this
    | some st => rw [hgo] at this; simpa using this

/-- **every accessor, read back**: for `name=value&…` as in `query_render`, `get_first(x)` is the first written value of
`x`, `get_last(x)` the last, `get(x)` the value if `x` was written exactly once and nothing otherwise — none of them
panics -/
theorem accessors_render (kvs : List Pair) (h : WF kvs) (x : Bytes) :
    ∃ ps, query (render kvs) = some ps ∧
      getFirst ps x = some ((kvs.map dec).filter (fun p => p.1 == x)).head? ∧
      getLast ps x = some ((kvs.map dec).filter (fun p => p.1 == x)).getLast? ∧
      get ps x = some (if ((kvs.map dec).filter (fun p => p.1 == x)).length = 1
        then ((kvs.map dec).filter (fun p => p.1 == x)).head? else none) := by
  obtain ⟨ps, h1, h2⟩ := get_all_render kvs h x
  exact ⟨ps, h1, by simp [getFirst, h2], by simp [getLast, h2], by simp [get, h2]⟩

end QuerySplit
