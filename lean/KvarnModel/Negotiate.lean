import KvarnModel.Rust
/-
C06 — `utils::list_header` (over a visible-ASCII header value), `comprash::do_compress`,
`CompressedResponse::{new (50-byte floor), clone_preferred}` and the codec operation sequences.
Quality values are classified `zero | one | other` from the decimal grammar `[+-]? DIGIT* [ "." DIGIT* ]`
(what `f32::from_str` accepts beyond that — exponents, inf, nan, more than 7 significant digits — is an
excluded input region, see DESIGN §3).
-/
namespace Negotiate
open Rust

inductive Q | zero | one | other deriving DecidableEq, Repr

/-- classification of `slice.parse::<f32>().unwrap_or(1.0)` -/
def allZero (l : Bytes) : Bool := l.all (· == 48)
def qClass (s : Bytes) : Q :=
  let body := match s with
    | 43 :: r => r
    | 45 :: r => r
    | _ => s
  let intPart := body.takeWhile isDigit
  let rest := body.drop intPart.length
  let (frac, ok) := match rest with
    | [] => (([] : Bytes), true)
    | 46 :: f => (f, f.all isDigit)
    | _ => ([], false)
  if !ok || (intPart.isEmpty && frac.isEmpty) then .one     -- parse error → 1.0
  else if allZero intPart && allZero frac then .zero
  else if allZero frac && (intPart.dropWhile (· == 48)) == [49] then .one
  else .other

structure LSt where
  startByte : Nat := 0
  endByte : Nat := 0
  inQuality : Bool := false
  prevQ : Bool := false
  qStart : Nat := 0
  out : List (Bytes × Q) := []

def SP : UInt8 := 32
def COMMA : UInt8 := 44
def SEMI : UInt8 := 59
def EQ : UInt8 := 61
def LQ : UInt8 := 113

/-- `str::trim` on a header value (`HeaderValue::to_str`: visible ASCII and tab): spaces and tabs at both ends -/
def isWs (b : UInt8) : Bool := b == 32 || b == 9
def trimWs (s : Bytes) : Bytes := ((s.dropWhile isWs).reverse.dropWhile isWs).reverse

def qOf (orig : Bytes) (qs e : Nat) : Q :=
  match sliceGet orig qs e with
  | some s => qClass (trimWs s)
  | none => .one

/-- one iteration of the `for (position, byte)` loop of `list_header` (`nextSp`: the byte after this one is a space) -/
def lstep (orig : Bytes) (b : UInt8) (nextSp : Bool) (pos : Nat) (st : LSt) : LSt :=
  if b = SP then st else
  let st := if st.inQuality ∧ st.qStart = 0 ∧ (isDigit b ∨ b = 46) then { st with qStart := pos } else st
  let st := if b = SEMI ∧ ¬ st.inQuality then { st with endByte := pos, inQuality := true } else st
  let st := if st.inQuality then
      let st := if b = EQ ∧ st.prevQ then { st with qStart := pos + 1 } else st
      { st with prevQ := b == LQ }
    else st
  if b = COMMA then
    let q := qOf orig st.qStart pos
    let out := match sliceGet orig st.startByte (if st.endByte = 0 then pos else st.endByte) with
      | some v => st.out ++ [(trimWs v, q)]
      | none => st.out
    let start := if nextSp then pos + 2 else pos + 1
    { st with out := out, qStart := 0, endByte := 0, startByte := start, inQuality := false }
  else st

/-- "Last, when reaches EOF" -/
def lfin (orig : Bytes) (st : LSt) : List (Bytes × Q) :=
  let q := qOf orig st.qStart orig.length
  match sliceGet orig st.startByte (if st.endByte = 0 then orig.length else st.endByte) with
  | some v => st.out ++ [(trimWs v, q)]
  | none => st.out

/-- the loop of `list_header` -/
def lgo (orig : Bytes) : Bytes → Nat → LSt → List (Bytes × Q)
  | [], _, st => lfin orig st
  | b :: rest, pos, st => lgo orig rest (pos + 1) (lstep orig b (rest.head? == some SP) pos st)

def listHeader (h : Bytes) : List (Bytes × Q) := lgo h h 0 {}

inductive Coding | identity | gzip | br | zstd deriving DecidableEq, Repr
def Coding.name : Coding → Bytes
  | .identity => "identity".toUTF8.toList | .gzip => "gzip".toUTF8.toList
  | .br => "br".toUTF8.toList | .zstd => "zstd".toUTF8.toList

def s2b (s : String) : Bytes := s.toUTF8.toList

/-- `do_compress(mime)` over `(type, subtype)` as the `mime` crate reports them; `isPdf` = `mime == application/pdf` -/
def doCompress (ty sub : Bytes) (isPdf : Bool) : Bool :=
  !(ty == s2b "image" && !(sub == s2b "svg")) && ty != s2b "font" && ty != s2b "video" && ty != s2b "audio" &&
  ty != s2b "*" && !isPdf && sub != s2b "zip" && sub != s2b "zstd" &&
  !(ty == s2b "application" && !(sub == s2b "javascript" || sub == s2b "graphql" || sub == s2b "json" ||
      sub == s2b "xml" || sub == s2b "wasm" || sub == s2b "octet-stream"))

def contains (vals : List (Bytes × Q)) (c : Coding) : Bool := vals.any fun v => v.1 == c.name && v.2 != .zero

def valsOf (ae : Option Bytes) : List (Bytes × Q) :=
  match ae with
  | some h => listHeader h
  | none => []

def disableIdentity (vals : List (Bytes × Q)) : Bool := vals.any fun v => v.1 == Coding.identity.name && v.2 == .zero
def onlyIdentity (vals : List (Bytes × Q)) : Bool := vals.length == 1 && vals.head? == some (Coding.identity.name, .one)

/-- the preferred algorithm if the client accepts it, else zstd, br, gzip in that order, else identity -/
def fallback (vals : List (Bytes × Q)) : Coding :=
  if contains vals .zstd then .zstd else if contains vals .br then .br
  else if contains vals .gzip then .gzip else .identity

def choose (vals : List (Bytes × Q)) (mime : Option Bool) (preferred : Coding) : Coding :=
  match mime with
  | some true =>
    if preferred ≠ .identity ∧ contains vals preferred then preferred else fallback vals
  | _ => .identity

/-- `CompressedResponse::new` + `clone_preferred`.
`handlerCompress` = the handler's `CompressPreference` is `Full`; `mime` = `none` if the content type is absent
or unparsable, else `some (doCompress …)`; `ae` = the `accept-encoding` value if present and visible ASCII.
`error ()` = the 406 "not acceptable". -/
def negotiate (handlerCompress : Bool) (bodyLen : Nat) (mime : Option Bool) (ae : Option Bytes) (preferred : Coding) :
    Except Unit Coding :=
  if !handlerCompress || bodyLen < 50 then .ok .identity else
  if onlyIdentity (valsOf ae) then .ok .identity else
  if disableIdentity (valsOf ae) && choose (valsOf ae) mime preferred == .identity then .error ()
  else .ok (choose (valsOf ae) mime preferred)

/-! ### the operations each `get_*` issues on its encoder (the codec contract is: a stream that was finished
decodes to the concatenation of the writes and signals end-of-stream) -/
inductive EncOp | new | write | flush | finish deriving DecidableEq, Repr
def complete (ops : List EncOp) : Bool := ops.getLast? == some .finish && ops.head? == some .new && ops.contains .write
def getGzipOps : List EncOp := [.new, .write, .finish]
def getBrOps : List EncOp := [.new, .write, .flush, .finish]     -- `into_inner` finishes the brotli stream
def getZstdOps : List EncOp := [.new, .write, .finish]

end Negotiate
