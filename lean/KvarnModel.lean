import KvarnModel.Rust
import KvarnModel.Quoted
import KvarnModel.Props.C19
