//! C15 — virtual host routing (`Collection::get_from_request`) and isolation between hosts.
use crate::common::*;
use kvarn::prelude::*;
use std::sync::atomic::{AtomicUsize, Ordering};
use std::sync::Arc;

const NAMES: [&str; 8] = ["a.test", "b.test", "www.a.test", "x", "localhost", "a.test.", "A.test", "c"];

fn build(ops: &str, with_handlers: bool) -> (Arc<HostCollection>, Vec<Arc<AtomicUsize>>) {
    let mut b = HostCollection::builder();
    let mut counters = Vec::new();
    for (idx, op) in parse_list(ops).unwrap().iter().enumerate() {
        let f: Vec<&str> = op.split(':').collect();
        let name = String::from_utf8(unhex(f[1]).unwrap()).unwrap();
        let mut ext = Extensions::empty();
        let counter = Arc::new(AtomicUsize::new(0));
        counters.push(counter.clone());
        if with_handlers {
            let counter = counters[idx].clone();
            ext.add_prepare_single(
                "/p",
                prepare!(_r, _h, _p, _a, move |counter: Arc<AtomicUsize>, idx: usize| {
                    let n = counter.fetch_add(1, Ordering::SeqCst);
                    FatResponse::cache(Response::new(Bytes::from(format!("host{idx} #{n}"))))
                }),
            );
            let counter = counters[idx].clone();
            ext.add_prepare_single(
                "/q",
                prepare!(_r, _h, _p, _a, move |counter: Arc<AtomicUsize>, idx: usize| {
                    let n = counter.fetch_add(1, Ordering::SeqCst);
                    FatResponse::no_cache(Response::new(Bytes::from(format!("host{idx} q#{n}"))))
                }),
            );
        }
        let mut host = Host::unsecure(name, format!("h{idx}"), ext, host::Options::default());
        host.limiter.disable();
        if f[2] != "-" {
            for a in f[2].split(';') {
                host.add_alternative_name(String::from_utf8(unhex(a).unwrap()).unwrap());
            }
        }
        b = if f[0] == "d" { b.default(host) } else { b.insert(host) };
    }
    (b.build(), counters)
}

fn request(host: Option<&[u8]>, path: &str) -> Option<Request<kvarn::application::Body>> {
    let mut r = Request::builder().method("GET").uri(path);
    if let Some(h) = host {
        r = r.header("host", HeaderValue::from_bytes(h).ok()?);
    }
    Some(r.body(kvarn::application::Body::Bytes(Bytes::new().into())).unwrap())
}

fn idx_of(h: &Host) -> usize {
    h.path.as_str().trim_start_matches('h').parse().unwrap()
}

fn gen_ops(rng: &mut Rng) -> String {
    let n = rng.range(1, 4);
    let has_default = rng.chance(1, 3);
    let dpos = rng.below(n);
    list((0..n).map(|i| {
        let name = *rng.pick(&NAMES);
        let alts: Vec<String> = (0..rng.below(3)).map(|_| hex(rng.pick(&NAMES).as_bytes())).collect();
        format!("{}:{}:{}", if has_default && i == dpos { "d" } else { "i" }, hex(name.as_bytes()), if alts.is_empty() { "-".into() } else { alts.join(";") })
    }))
}

fn gen_name(rng: &mut Rng) -> Vec<u8> {
    match rng.below(16) {
        0 => b"localhost:8080".to_vec(),
        1 => b"127.0.0.1".to_vec(),
        2 => b"[::1]:443".to_vec(),
        3 => b"[::1]".to_vec(),
        4 => b"::1".to_vec(),
        5 => b"unknown.example".to_vec(),
        6 => b"127.0.0.1:80".to_vec(),
        7 => "a.t\u{e9}st".as_bytes().to_vec(),
        8 => b"localhost.".to_vec(),
        9 => b"[::1".to_vec(),
        10 => b"a.test..".to_vec(),
        11 => b"localhost.:80".to_vec(),
        _ => {
            let mut n = rng.pick(&NAMES).as_bytes().to_vec();
            if rng.chance(1, 4) {
                n.push(b'.');
            }
            n
        }
    }
}

pub struct Route;
impl Group for Route {
    fn name(&self) -> &'static str {
        "c15.route"
    }
    fn rule(&self) -> &'static str {
        "collections of 1-4 hosts over 8 names (with/without default, alternative names overlapping primary names in both insertion orders, re-inserted names), SNI absent/present, Host header exact/alt/trailing dot/different case/unknown/loopback forms with port/IPv6 literal/absent/non-ASCII; Collection::get_from_request compared with the model and with a reference resolver written from the statement; non-trivial = a host name or SNI is given and the collection has > 1 host or alternative names"
    }
    fn generate(&self, ctx: &Ctx, rng: &mut Rng) -> Vec<String> {
        let mut v = vec![
            // F17
            format!("c15.route [i:{}:{},i:{}:{}] none {}", hex(b"a"), hex(b"x"), hex(b"c"), hex(b"a"), hex(b"x")),
            format!("c15.route [i:{}:{},i:{}:{}] {} none", hex(b"a"), hex(b"x"), hex(b"c"), hex(b"a"), hex(b"x")),
        ];
        let n = if ctx.mode == Mode::Quick { 6000 } else { 200_000 };
        for _ in 0..n {
            let ops = gen_ops(rng);
            let sni = if rng.chance(1, 4) { hex(&gen_name(rng)) } else { "none".into() };
            let hh = if rng.chance(1, 10) { "none".into() } else { hex(&gen_name(rng)) };
            v.push(format!("c15.route {ops} {sni} {hh}"));
        }
        v
    }
    fn run_impl(&self, _ctx: &Ctx, line: &str) -> String {
        let p: Vec<&str> = line.split(' ').collect();
        let (coll, _) = build(p[1], false);
        let sni = if p[2] == "none" { None } else { Some(String::from_utf8(unhex(p[2]).unwrap()).unwrap()) };
        let hh = if p[3] == "none" { None } else { Some(unhex(p[3]).unwrap()) };
        let Some(req) = request(hh.as_deref(), "/") else { return "invalid-header".into() };
        match coll.get_from_request(&req, sni.as_deref()) {
            None => "none".into(),
            Some(h) => {
                // the re-lookup by name done in handle_connection must give the same host
                let again = coll.get_host(&h.name).map(idx_of);
                if again != Some(idx_of(h)) {
                    return format!("{} relookup={again:?}", idx_of(h));
                }
                idx_of(h).to_string()
            }
        }
    }
    /// reference resolver written from the statement
    fn oracle(&self, _ctx: &Ctx, line: &str, out: &str) -> Option<(String, String)> {
        if out == "panic" {
            return Some((format!("panic:{line}"), "get_from_request panicked".into()));
        }
        if out.contains("relookup") {
            return Some((format!("relookup:{line}"), format!("get_host(host.name) is another host: {out}")));
        }
        let p: Vec<&str> = line.split(' ').collect();
        // hosts: (idx, name, alts, default?)
        let hosts: Vec<(usize, String, Vec<String>, bool)> = parse_list(p[1])
            .unwrap()
            .iter()
            .enumerate()
            .map(|(i, op)| {
                let f: Vec<&str> = op.split(':').collect();
                let alts = if f[2] == "-" { vec![] } else { f[2].split(';').map(|a| String::from_utf8(unhex(a).unwrap()).unwrap()).collect() };
                (i, String::from_utf8(unhex(f[1]).unwrap()).unwrap(), alts, f[0] == "d")
            })
            .collect();
        // two hosts with the same own name: the later one replaces the earlier one altogether (a degenerate
        // configuration the statement does not speak about): judged by the model comparison only
        {
            let mut names: Vec<&String> = hosts.iter().map(|h| &h.1).collect();
            names.sort();
            if names.windows(2).any(|w| w[0] == w[1]) {
                return None;
            }
        }
        let by_name = |n: &str| -> Option<usize> {
            // a primary name beats an alternative name; among equals the later insert wins
            hosts.iter().rev().find(|h| h.1 == n).map(|h| h.0).or_else(|| hosts.iter().rev().find(|h| h.2.iter().any(|a| a == n)).map(|h| h.0))
        };
        let name: Option<String> = if p[2] != "none" {
            Some(String::from_utf8(unhex(p[2]).unwrap()).unwrap())
        } else if p[3] != "none" {
            let b = unhex(p[3]).unwrap();
            if b.iter().all(|c| (32..127).contains(c)) { Some(String::from_utf8(b).unwrap()) } else { None }
        } else {
            None
        };
        let default = hosts.iter().find(|h| h.3).map(|h| h.0);
        // the default host is itself looked up by name (a later host may have taken its name)
        let default = default.and_then(|d| by_name(&hosts[d].1));
        let expect: Option<usize> = match &name {
            None => default,
            Some(n) => by_name(n).or_else(|| n.strip_suffix('.').and_then(by_name)).or(default).or_else(|| {
                let base = if n.starts_with('[') { n.split_inclusive(']').next().unwrap() } else if n == "::1" { n.as_str() } else { n.split(':').next().unwrap() };
                if ["localhost", "127.0.0.1", "::1", "[::1]"].contains(&base) { by_name(&hosts[0].1) } else { None }
            }),
        };
        let exp = expect.map(|i| i.to_string()).unwrap_or("none".into());
        if exp != out {
            Some((format!("route:{line}"), format!("reference resolver says {exp}, kvarn routed to {out}")))
        } else {
            None
        }
    }
    fn nontrivial(&self, line: &str, _o: &str) -> bool {
        let p: Vec<&str> = line.split(' ').collect();
        (p[2] != "none" || p[3] != "none") && (p[1].contains(',') || !p[1].contains(":-]"))
    }
    fn classify(&self, _l: &str, o: &str) -> String {
        if o == "none" { "409".into() } else { "routed".into() }
    }
}

/// isolation: the replies a host gives are those a single-host server would give to the sub-history
pub struct Isolation;
impl Group for Isolation {
    fn name(&self) -> &'static str {
        "c15.isolation"
    }
    fn rule(&self) -> &'static str {
        "interleaved histories of requests to /p (cached handler) and /q (uncached handler) with identical paths on 2-4 hosts, each handler embedding its host marker and invocation counter; through get_from_request + handle_cache; oracle (the statement itself): every reply carries the marker of the routed host, and the replies routed to h equal the replies of a fresh single-host collection fed only that sub-history (theorem `Hosts.isolation` is the model-level counterpart); non-trivial = at least two hosts answer"
    }
    fn compare_with_model(&self, _l: &str) -> bool {
        false
    }
    fn generate(&self, ctx: &Ctx, rng: &mut Rng) -> Vec<String> {
        let n = if ctx.mode == Mode::Quick { 150 } else { 3000 };
        (0..n)
            .map(|_| {
                let ops = gen_ops(rng);
                let k = rng.range(4, 24);
                let reqs = list((0..k).map(|_| format!("{}@{}", hex(&gen_name(rng)), if rng.chance(2, 3) { "p" } else { "q" })));
                format!("c15.isolation {ops} {reqs}")
            })
            .collect()
    }
    fn run_impl(&self, _ctx: &Ctx, line: &str) -> String {
        let p: Vec<&str> = line.split(' ').collect();
        let rt = tokio::runtime::Builder::new_current_thread().enable_all().build().unwrap();
        let addr: SocketAddr = "10.1.1.1:5000".parse().unwrap();
        let run = |coll: &HostCollection, reqs: &[(Vec<u8>, String)]| -> Vec<(Option<usize>, String)> {
            reqs.iter()
                .map(|(h, path)| {
                    let Some(mut req) = request(Some(h), &format!("/{path}")) else { return (None, "invalid".into()) };
                    match coll.get_from_request(&req, None) {
                        None => (None, "409".to_owned()),
                        Some(host) => {
                            let reply = rt.block_on(kvarn::handle_cache(&mut req, addr, host));
                            (Some(idx_of(host)), String::from_utf8_lossy(&reply.identity_body).into_owned())
                        }
                    }
                })
                .collect()
        };
        let reqs: Vec<(Vec<u8>, String)> = parse_list(p[2]).unwrap().iter().map(|r| { let (h, pa) = r.split_once('@').unwrap(); (unhex(h).unwrap(), pa.to_owned()) }).collect();
        let (coll, _) = build(p[1], true);
        let multi = run(&coll, &reqs);
        // marker check + projection check
        let nhosts = parse_list(p[1]).unwrap().len();
        for h in 0..nhosts {
            let sub: Vec<(Vec<u8>, String)> = reqs.iter().zip(&multi).filter(|(_, m)| m.0 == Some(h)).map(|(r, _)| r.clone()).collect();
            let (fresh, _) = build(p[1], true);
            let single = run(&fresh, &sub);
            let got: Vec<&String> = multi.iter().filter(|m| m.0 == Some(h)).map(|m| &m.1).collect();
            let want: Vec<&String> = single.iter().map(|m| &m.1).collect();
            if got != want {
                return format!("projection-differs host{h}: multi={got:?} single={want:?}");
            }
            if got.iter().any(|b| !b.starts_with(&format!("host{h} "))) {
                return format!("foreign-marker host{h}: {got:?}");
            }
        }
        let answered: std::collections::BTreeSet<usize> = multi.iter().filter_map(|m| m.0).collect();
        format!("ok hosts={}", answered.len())
    }
    fn oracle(&self, _ctx: &Ctx, line: &str, out: &str) -> Option<(String, String)> {
        if out.starts_with("ok") {
            None
        } else {
            Some((format!("isolation:{line}"), out.to_owned()))
        }
    }
    fn nontrivial(&self, _l: &str, o: &str) -> bool {
        o.starts_with("ok hosts=") && o != "ok hosts=0" && o != "ok hosts=1"
    }
}

/// routing per request on one keep-alive connection through a real server
pub struct Conn;
impl Group for Conn {
    // a real server / real sockets with read timeouts: a failure counts if it shows again when the same case is re-run
    fn timing_sensitive(&self) -> bool {
        true
    }
    fn name(&self) -> &'static str {
        "c15.conn"
    }
    fn rule(&self) -> &'static str {
        "a real loopback server (no SNI) with a generated collection; ONE keep-alive connection carrying 3-8 requests whose Host headers name different hosts / unknown names / loopback names; each response must come from the host the model routes that request to (marker body) or be 409; compared per request with `route`; non-trivial = at least two different outcomes on the connection"
    }
    fn parallel(&self) -> bool {
        false
    }
    fn generate(&self, ctx: &Ctx, rng: &mut Rng) -> Vec<String> {
        let n = if ctx.mode == Mode::Quick { 24 } else { 400 };
        (0..n)
            .map(|_| {
                let ops = gen_ops(rng);
                let k = rng.range(3, 8);
                let reqs = list((0..k).map(|_| {
                    let mut nme = gen_name(rng);
                    // header values must be valid for the raw client too
                    // … and a valid authority, else the request head is rejected before routing
                    if nme.iter().any(|c| *c >= 0x80) || http::uri::Authority::try_from(&nme[..]).is_err() {
                        nme = b"unknown.example".to_vec();
                    }
                    hex(&nme)
                }));
                format!("c15.conn {ops} {reqs}")
            })
            .collect()
    }
    fn driver_line(&self, line: &str) -> String {
        // expanded inside run_impl (one route line per request); keep the protocol 1:1 with a constant
        let _ = line;
        "c15.route [] none none".into()
    }
    fn canon(&self, out: &str) -> String {
        if out == "ok" || out == "none" { "match".into() } else { out.to_owned() }
    }
    fn run_impl(&self, ctx: &Ctx, line: &str) -> String {
        use crate::server::*;
        let p: Vec<&str> = line.split(' ').collect();
        let (coll, _) = build(p[1], true);
        let Some(srv) = TestServer::try_start(coll) else { return "inconclusive: server did not start".into() };
        let Some(stream) = crate::server::connect_retry(srv.port) else { srv.stop(); return "inconclusive: connect".into() };
        let mut cl = StrictClient::new(stream);
        cl.stream.set_read_timeout(Some(std::time::Duration::from_secs(5))).unwrap();
        let names = parse_list(p[2]).unwrap();
        let mut observed = Vec::new();
        let mut lines = Vec::new();
        for h in &names {
            let name = unhex(h).unwrap();
            let mut raw = b"GET /q HTTP/1.1\r\nhost: ".to_vec();
            raw.extend_from_slice(&name);
            raw.extend_from_slice(b"\r\n\r\n");
            lines.push(format!("c15.route {} none {h}", p[1]));
            if cl.send(&raw).is_err() {
                observed.push("closed".to_owned());
                break;
            }
            match cl.read_response(false) {
                Ok(r) if r.status == 409 => {
                    observed.push("none".into());
                    break; // kvarn closes the connection after a 409
                }
                Ok(r) => {
                    let b = String::from_utf8_lossy(&r.body).into_owned();
                    observed.push(b.strip_prefix("host").and_then(|x| x.split(' ').next()).unwrap_or("?").to_owned());
                }
                Err(e) => {
                    observed.push(format!("{e:?}"));
                    break;
                }
            }
        }
        srv.stop();
        let predicted = run_driver(&ctx.driver, &lines[..observed.len()]).unwrap_or_default();
        if observed == predicted {
            "ok".into()
        } else {
            format!("mismatch observed={observed:?} model={predicted:?}")
        }
    }
    fn oracle(&self, _ctx: &Ctx, line: &str, out: &str) -> Option<(String, String)> {
        if out == "ok" { None } else { Some((format!("conn:{line}"), format!("a request on a reused connection was not answered by the host its Host header names: {out}"))) }
    }
    fn classify(&self, _l: &str, o: &str) -> String {
        o.split(' ').next().unwrap_or("").to_owned()
    }
}
