#![allow(dead_code)]
//! `kvarn-verif <property> --mode quick|thorough --seed N --out DIR --driver PATH [--replay FILE]`
//!
//! Runs the correspondence groups of one property: real kvarn code vs. the compiled Lean model, plus the
//! statement-level oracles. Writes `<out>/result.json`. Exit code 0 always (the verdict is check.py's).
mod common;
mod groups;
mod server;
use common::*;

fn groups_for(prop: &str, ctx: &Ctx) -> Vec<Box<dyn Group>> {
    use groups::*;
    match prop {
        "C19" => vec![Box::new(c19::Split), Box::new(c19::Msg), Box::new(c19::Dispatch::new(ctx)), Box::new(c19::InFlight), Box::new(c19::Cli::new(ctx))],
        "C09" => vec![Box::new(c09::Reply), Box::new(c09::Tiling), Box::new(c09::Wire), Box::new(c09::Repr)],
        "C12" => vec![Box::new(c12::Run), Box::new(c12::Serve), Box::new(c12::Hosts)],
        "C18" => vec![Box::new(c18::Write), Box::new(c18::Replace), Box::new(c18::ReplaceSeq), Box::new(c18::FileRead::new()), Box::new(c18::ReadAll), Box::new(c18::Adaptor)],
        "C16" => vec![Box::new(c16::Ops), Box::new(c16::Present), Box::new(c16::Trace), Box::new(c16::EmptyArgs)],
        "C15" => vec![Box::new(c15::Route), Box::new(c15::Isolation), Box::new(c15::Conn), Box::new(c20::HostsTls::new()), Box::new(c08::BodyAcct)],
        "C14" => vec![Box::new(c14::Rules), Box::new(c14::NonceRewrite::new()), Box::new(c14::CspHeader), Box::new(c14::Chain)],
        "C01" => vec![Box::new(c01::PathOk), Box::new(c01::San), Box::new(c01::Read::new(ctx))],
        "C07" => vec![Box::new(c07::Request1), Box::new(c08::BodyAcct)],
        "C06" => vec![Box::new(c06::ListHeader), Box::new(c06::Negotiation::new()), Box::new(c06::Memo::new())],
        "C03" => vec![Box::new(c03::History), Box::new(c03::Keys), Box::new(c13::Decisions), Box::new(c06::Negotiation::new())],
        "C04" => vec![Box::new(c03::History), Box::new(c04::CacheCtl)],
        "C05" => vec![Box::new(c05::Serve), Box::new(c05::Overlap)],
        "C13" => vec![Box::new(c13::Decisions)],
        "C17" => vec![Box::new(c17::Hist::new(ctx))],
        "C08" => vec![Box::new(c08::Framing), Box::new(c08::Huge), Box::new(c08::BodyAcct)],
        "C20" => vec![Box::new(c20::Pair::new()), Box::new(c20::MuxStreams::new()), Box::new(c20::HostsTls::new()), Box::new(c08::BodyAcct)],
        "C10" => vec![Box::new(c10::Nested), Box::new(c10::Ctl)],
        "C11" => vec![Box::new(c11::Chain), Box::new(c10::Nested), Box::new(c10::Ctl)],
        "C02" => vec![Box::new(c02::Headers), Box::new(c02::Head), Box::new(c02::Stack), Box::new(c02::Crawl), Box::new(c02::QueryStr), Box::new(c02::QueryIter), Box::new(c16::EmptyArgs), Box::new(c09::Reply), Box::new(c15::Route),
            Box::new(c16::Present), Box::new(c14::NonceRewrite::new()), Box::new(c06::ListHeader), Box::new(c01::San), Box::new(c18::Replace)],
        _ => vec![],
    }
}

fn main() {
    // kvarn_testing initialises env_logger: keep it quiet
    std::env::set_var("RUST_LOG", "off");
    let args: Vec<String> = std::env::args().collect();
    let prop = args.get(1).cloned().unwrap_or_default();
    let mut mode = Mode::Quick;
    let mut seed = 1u64;
    // where this copy of the machinery lives (a snapshot of /verif runs with VERIF_ROOT pointing at itself)
    let root = std::env::var("VERIF_ROOT").unwrap_or_else(|_| "/verif".to_owned());
    let mut out = std::path::PathBuf::from(format!("{root}/harness/target/out"));
    let mut driver = format!("{root}/lean/.lake/build/bin/kvarn_model_driver");
    let mut replay: Option<String> = None;
    let mut i = 2;
    while i < args.len() {
        match args[i].as_str() {
            "--mode" => {
                mode = if args[i + 1] == "thorough" { Mode::Thorough } else { Mode::Quick };
                i += 1;
            }
            "--seed" => {
                seed = args[i + 1].parse().unwrap_or(1);
                i += 1;
            }
            "--out" => {
                out = args[i + 1].clone().into();
                i += 1;
            }
            "--driver" => {
                driver = args[i + 1].clone();
                i += 1;
            }
            "--replay" => {
                replay = Some(args[i + 1].clone());
                i += 1;
            }
            _ => {}
        }
        i += 1;
    }
    if std::env::var("VERIF_DEBUG").is_err() {
        std::panic::set_hook(Box::new(|_| {}));
    }
    std::fs::create_dir_all(&out).unwrap();
    let work = std::path::PathBuf::from(format!("{root}/harness/target/work")).join(&prop);
    std::fs::create_dir_all(&work).unwrap();
    let mut ctx = Ctx { mode, seed, driver, work, group_budget_s: 240 };
    let t0 = std::time::Instant::now();
    let groups = groups_for(&prop, &ctx);
    if groups.is_empty() {
        eprintln!("unknown property {prop}");
        std::process::exit(2);
    }
    // the whole property: 8 min quick, 45 min thorough (check.py allows the process 3400 s)
    ctx.group_budget_s = ((if ctx.mode == Mode::Quick { 480 } else { 2700 }) / groups.len() as u64).max(60);
    // corpus of minimised past failures: harness/corpus/<prop>.ops, one line per case
    let corpus: Vec<String> = std::fs::read_to_string(format!("{root}/harness/corpus/{prop}.ops"))
        .unwrap_or_default()
        .lines()
        .filter(|l| !l.trim().is_empty() && !l.starts_with('#'))
        .map(str::to_owned)
        .collect();
    // replay: a JSON file with {"line": ...} or a plain text file of lines
    let replay_lines: Option<Vec<String>> = replay.map(|p| {
        let text = std::fs::read_to_string(&p).expect("replay file");
        if let Ok(v) = serde_json::from_str::<serde_json::Value>(&text) {
            let mut ls = Vec::new();
            if let Some(l) = v.get("line").and_then(|l| l.as_str()) {
                ls.push(l.to_owned());
            }
            if let Some(arr) = v.get("lines").and_then(|l| l.as_array()) {
                ls.extend(arr.iter().filter_map(|x| x.as_str().map(str::to_owned)));
            }
            ls
        } else {
            text.lines().map(str::to_owned).collect()
        }
    });
    let mut rng = Rng::new(seed);
    let mut results = Vec::new();
    for g in &groups {
        let mut grng = rng.fork();
        let only: Option<Vec<String>> = replay_lines.as_ref().map(|ls| ls.iter().filter(|l| l.starts_with(g.name())).cloned().collect());
        if let Some(o) = &only {
            if o.is_empty() {
                continue;
            }
        }
        let r = run_group(g.as_ref(), &ctx, &mut grng, &corpus, only.as_deref());
        eprintln!(
            "[{}] {}: {} cases, {} compared, {} distinct non-trivial, {} disagreements, {} oracle failures, {:.1}s",
            prop,
            r.name,
            r.evaluations,
            r.compared,
            r.distinct_nontrivial,
            r.disagreements.len(),
            r.oracle_failures.len(),
            r.wall_s
        );
        results.push(r.to_json());
    }
    let v = serde_json::json!({"property": prop, "mode": if mode == Mode::Quick {"quick"} else {"thorough"}, "seed": seed,
        "groups": results, "wall_s": t0.elapsed().as_secs_f64()});
    std::fs::write(out.join("result.json"), serde_json::to_string_pretty(&v).unwrap()).unwrap();
    if replay_lines.is_some() {
        println!("{}", serde_json::to_string_pretty(&v).unwrap());
    }
    // some groups keep servers/runtimes alive; leave without running their destructors
    std::process::exit(0);
}
