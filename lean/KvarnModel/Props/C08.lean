import KvarnModel.Wire
import KvarnModel.Props.C09
import KvarnModel.Props.C14
/-! C08 — HTTP/1 responses are correctly framed on persistent connections. Property theorems. -/
namespace Wire1
open Rust

theorem splitLine_append (l rest : Bytes) (h : (13 : UInt8) ∉ l) : splitLine (l ++ 13 :: 10 :: rest) = some (l, rest) := by
  induction l with
  | nil => simp [splitLine]
  | cons a as ih =>
    have ha : a ≠ 13 := fun e => h (by simp [e])
    have has : (13 : UInt8) ∉ as := fun e => h (by simp [e])
    simp only [List.cons_append, splitLine, ha, ↓reduceIte, ih has, Option.map_some]

theorem parseHeaderLine_ok (n v : Bytes) (hn : (58 : UInt8) ∉ n) : parseHeaderLine (n ++ [58, 32] ++ v) = some (n, v) := by
  unfold parseHeaderLine
  have e : n ++ [58, 32] ++ v = n ++ 58 :: (32 :: v) := by simp
  rw [e, Range.position_append_not_mem n (32 :: v) 58 (fun y hy e => hn (e ▸ hy))]
  simp [stripOneSpace]

/-- header names and values as `http::HeaderName` / `HeaderValue` guarantee them: no CR anywhere, no colon in
a name -/
def HeaderOk (h : Bytes × Bytes) : Prop := (13 : UInt8) ∉ h.1 ∧ (58 : UInt8) ∉ h.1 ∧ (13 : UInt8) ∉ h.2

theorem headerLine_eq (h : Bytes × Bytes) : headerLine h = (h.1 ++ [58, 32] ++ h.2) ++ 13 :: 10 :: [] := by
  simp [headerLine, CRLF]

theorem parseHeaders_ok : ∀ (hs : List (Bytes × Bytes)) (rest : Bytes) (fuel : Nat), hs.length < fuel →
    (∀ h ∈ hs, HeaderOk h) →
    parseHeaders fuel ((hs.map headerLine).flatten ++ CRLF ++ rest) = some (hs, rest) := by
  intro hs
  induction hs with
  | nil =>
    intro rest fuel hf _
    cases fuel with
    | zero => omega
    | succ f => simp [parseHeaders, CRLF, splitLine]
  | cons h hs ih =>
    intro rest fuel hf hok
    cases fuel with
    | zero => omega
    | succ f =>
      obtain ⟨h1, h2, h3⟩ := hok h (by simp)
      have hline : (13 : UInt8) ∉ (h.1 ++ [58, 32] ++ h.2) := by
        simp only [List.mem_append, List.mem_cons, List.not_mem_nil, or_false, not_or]
        exact ⟨⟨h1, by decide, by decide⟩, h3⟩
      have e : ((h :: hs).map headerLine).flatten ++ CRLF ++ rest =
          (h.1 ++ [58, 32] ++ h.2) ++ 13 :: 10 :: ((hs.map headerLine).flatten ++ CRLF ++ rest) := by
        simp [headerLine, CRLF]
      rw [e]
      unfold parseHeaders
      rw [splitLine_append _ _ hline]
      have hne : (h.1 ++ [58, 32] ++ h.2).isEmpty = false := by simp
      simp only [hne, Bool.false_eq_true, ↓reduceIte, parseHeaderLine_ok h.1 h.2 h2,
        ih rest f (by simp at hf; omega) (fun x hx => hok x (by simp [hx]))]

theorem parseStatusLine_ok (s : Nat) (reason : Bytes) :
    parseStatusLine (HTTP11 ++ [32] ++ Range.dec s ++ [32] ++ reason) = some (s, reason) := by
  unfold parseStatusLine
  have e : HTTP11 ++ [32] ++ Range.dec s ++ [32] ++ reason = (HTTP11 ++ [32]) ++ (Range.dec s ++ 32 :: reason) := by simp
  rw [e]
  have hsw : startsWith ((HTTP11 ++ [32]) ++ (Range.dec s ++ 32 :: reason)) (HTTP11 ++ [32]) = true :=
    Range.startsWith_append _ _
  have hdrop : ((HTTP11 ++ [32]) ++ (Range.dec s ++ 32 :: reason)).drop 9 = Range.dec s ++ 32 :: reason :=
    List.drop_left' rfl
  simp only [hsw, Bool.not_true, Bool.false_eq_true, ↓reduceIte, hdrop]
  have hpos : position 32 (Range.dec s ++ 32 :: reason) = some (Range.dec s).length :=
    Range.position_append_not_mem _ _ 32 (fun y hy => by
      have := (Range.digit_props y (Range.dec_all s y hy)).2.2.1
      intro e; subst e; simp [Range.SPACE] at this)
  rw [hpos]
  have hne : (Range.dec s).length ≠ 0 := by
    have := Range.dec_ne_nil s; cases h : Range.dec s <;> simp_all
  simp only [hne, ↓reduceIte, List.take_left', Range.parseDigits_dec, Option.map_some]
  congr 2
  have : Range.dec s ++ 32 :: reason = (Range.dec s ++ [32]) ++ reason := by simp
  rw [this]; exact List.drop_left' (by simp)

/-- Package extensions do not touch `content-length` (kvarn's own — CSP, referrer, server, CORS — insert other
names; a handler-supplied Package that did would break framing and is excluded by this hypothesis) -/
def KeepsLength (pkg : Csp.Headers → Csp.Headers) : Prop :=
  ∀ h, (pkg h).filter (fun e => e.1 == CONTENT_LENGTH) = h.filter (fun e => e.1 == CONTENT_LENGTH)

theorem filter_hinsert_self (h : Csp.Headers) (n v : Bytes) :
    (Csp.hinsert h n v).filter (fun e => e.1 == n) = [(n, v)] := by
  unfold Csp.hinsert Csp.hremove
  rw [List.filter_append, List.filter_filter]
  have : h.filter (fun a => (a.1 == n) && !(a.1 == n)) = [] := by
    apply List.filter_eq_nil_iff.2
    intro a _; cases a.1 == n <;> simp
  simp [this]

theorem filter_hinsert_other (h : Csp.Headers) (n v k : Bytes) (hk : k ≠ n) :
    (Csp.hinsert h n v).filter (fun e => e.1 == k) = h.filter (fun e => e.1 == k) := by
  unfold Csp.hinsert Csp.hremove
  rw [List.filter_append, List.filter_filter]
  have h1 : ([(n, v)] : Csp.Headers).filter (fun e => e.1 == k) = [] := by
    have : (n == k) = false := by simpa using fun e => hk e.symm
    simp [this]
  rw [h1, List.append_nil]
  apply List.filter_congr
  intro a _
  by_cases ha : a.1 = k
  · have : (a.1 == n) = false := by simpa [ha] using hk
    simp [ha, this, hk]
  · have : (a.1 == k) = false := by simpa using ha
    simp [this]

theorem cl_ne_conn : CONTENT_LENGTH ≠ CONNECTION := by
  intro h; have := congrArg List.length h; revert this; decide +kernel

/-- **exactly one content-length, equal to the body length** — for GET and HEAD alike (same headers) -/
theorem length_matches (headers : List (Bytes × Bytes)) (len : Nat) (pkg : Csp.Headers → Csp.Headers)
    (hp : KeepsLength pkg) :
    (finalHeaders headers len pkg).filter (fun e => e.1 == CONTENT_LENGTH) = [(CONTENT_LENGTH, Range.dec len)] := by
  unfold finalHeaders
  simp only
  have base : (pkg (Csp.hinsert headers CONTENT_LENGTH (Range.dec len))).filter (fun e => e.1 == CONTENT_LENGTH) =
      [(CONTENT_LENGTH, Range.dec len)] := by rw [hp, filter_hinsert_self]
  split
  · rw [filter_hinsert_other _ _ _ _ cl_ne_conn]; exact base
  · split
    · rw [filter_hinsert_other _ _ _ _ cl_ne_conn]; exact base
    · exact base

structure WF (r : Resp) (pkg : Csp.Headers → Csp.Headers) : Prop where
  reason : (13 : UInt8) ∉ r.reason
  headers : ∀ h ∈ finalHeaders r.headers r.body.length pkg, HeaderOk h
  pkg : KeepsLength pkg
  nobody : (r.status = 204 ∨ r.status = 304) → r.body = []

theorem lines_length (fh : Csp.Headers) : fh.length ≤ ((fh.map headerLine).flatten).length := by
  induction fh with
  | nil => simp
  | cons h hs ih => simp only [List.map_cons, List.flatten_cons, List.length_append, List.length_cons, headerLine, CRLF]; omega

/-- **one response is read back exactly, and the reader stops exactly at its end** -/
theorem parse_wire (r : Resp) (isHead : Bool) (pkg : Csp.Headers → Csp.Headers) (rest : Bytes) (wf : WF r pkg) :
    parseOne (wire r isHead pkg ++ rest) isHead = some (received r isHead pkg, rest) := by
  unfold parseOne wire headBytes
  generalize hfh : finalHeaders r.headers r.body.length pkg = fh
  have hcl : fh.filter (fun e => e.1 == CONTENT_LENGTH) = [(CONTENT_LENGTH, Range.dec r.body.length)] := by
    rw [← hfh]; exact length_matches _ _ _ wf.pkg
  have hok : ∀ h ∈ fh, HeaderOk h := by rw [← hfh]; exact wf.headers
  -- status line
  have hsl : (13 : UInt8) ∉ (HTTP11 ++ [32] ++ Range.dec r.status ++ [32] ++ r.reason) := by
    simp only [List.mem_append, List.mem_cons, List.not_mem_nil, or_false, not_or]
    refine ⟨⟨⟨⟨by decide, by decide⟩, ?_⟩, by decide⟩, wf.reason⟩
    intro hm
    have := (Range.digit_props 13 (Range.dec_all r.status 13 hm)).1
    revert this; decide
  have e1 : HTTP11 ++ [32] ++ Range.dec r.status ++ [32] ++ r.reason ++ CRLF ++ (fh.map headerLine).flatten ++ CRLF ++
      (if isHead = true then [] else r.body) ++ rest =
      (HTTP11 ++ [32] ++ Range.dec r.status ++ [32] ++ r.reason) ++ 13 :: 10 ::
        ((fh.map headerLine).flatten ++ CRLF ++ ((if isHead = true then [] else r.body) ++ rest)) := by
    simp [CRLF]
  rw [e1, splitLine_append _ _ hsl]
  simp only [parseStatusLine_ok]
  rw [parseHeaders_ok fh _ _ (by have := lines_length fh; simp only [List.length_append]; omega) hok]
  simp only [hcl, Range.parseDigits_dec]
  have hne : (Range.dec r.body.length).isEmpty = false := by
    have := Range.dec_ne_nil r.body.length; cases h : Range.dec r.body.length <;> simp_all
  simp only [hne, Bool.false_eq_true, ↓reduceIte]
  unfold received
  rw [hfh]
  cases isHead with
  | true => simp
  | false =>
    simp only [Bool.false_or, Bool.false_eq_true, ↓reduceIte]
    by_cases hs : (r.status == 204 || r.status == 304) = true
    · have hb : r.body = [] := wf.nobody (by simpa using hs)
      simp [hs, hb]
    · simp only [hs, Bool.false_eq_true, ↓reduceIte]
      have : ¬ (r.body ++ rest).length < r.body.length := by simp
      simp only [this, ↓reduceIte]
      simp

/-- **a strict client never loses synchronisation**: for every sequence of responses (cached, uncached,
compressed, ranged, error pages, 304, 429 … — any `Resp`) to requests of either kind, reading the connection's
byte stream yields exactly one response per request, in order, each with its own body (none for HEAD) and a
`content-length` equal to the body length of the GET representation. -/
theorem framing_roundtrip (pkg : Csp.Headers → Csp.Headers) :
    ∀ (rs : List (Resp × Bool)), (∀ x ∈ rs, WF x.1 pkg) →
      parseAll ((rs.map fun x => wire x.1 x.2 pkg).flatten) (rs.map (·.2)) =
        some (rs.map fun x => received x.1 x.2 pkg) := by
  intro rs
  induction rs with
  | nil => intro _; simp [parseAll]
  | cons x xs ih =>
    intro hwf
    simp only [List.map_cons, List.flatten_cons, parseAll]
    rw [parse_wire x.1 x.2 pkg _ (hwf x (by simp))]
    simp only [ih (fun y hy => hwf y (by simp [hy])), Option.map_some]

/-- HEAD: the same `content-length` as GET, and zero body bytes -/
theorem head_same_length (r : Resp) (pkg : Csp.Headers → Csp.Headers) :
    (received r true pkg).headers = (received r false pkg).headers ∧ (received r true pkg).body = [] := ⟨rfl, rfl⟩

/-! concrete witness (test) -/
example : parseAll (wire ⟨200, [79, 75], [([120], [121])], [104, 105]⟩ false id ++ wire ⟨404, [78], [], [33]⟩ true id)
    [false, true] = some [received ⟨200, [79, 75], [([120], [121])], [104, 105]⟩ false id, received ⟨404, [78], [], [33]⟩ true id] := by
  decide +kernel

theorem serverHeads_cons (r : Rq) (used : Nat) (rest : List (Rq × Nat)) (S : Bytes) (hu : used ≤ r.body.length) :
    serverHeads true ((r, used) :: rest) (r.head ++ r.body ++ S) = r.head :: serverHeads true rest S := by
  simp only [serverHeads, ↓reduceIte]
  have e3 : used + (r.body.length - used) = r.body.length := by omega
  rw [e3]
  simp [List.append_assoc]

/-- **the connection stays in step**: whatever part of each request body the handler consumes (none, a prefix,
all of it), the heads the server parses on a persistent connection are exactly the heads the client wrote, in order
— for every sequence of requests and every consumption pattern. -/
theorem boundaries_in_step : ∀ (rs : List (Rq × Nat)) (tail : Bytes), (∀ p ∈ rs, p.2 ≤ p.1.body.length) →
    serverHeads true rs (clientStream (rs.map (·.1)) ++ tail) = rs.map (·.1.head) := by
  intro rs
  induction rs with
  | nil => intro _ _; rfl
  | cons p rest ih =>
    intro tail h
    obtain ⟨r, used⟩ := p
    have hu : used ≤ r.body.length := h (r, used) (by simp)
    have : clientStream (((r, used) :: rest).map (·.1)) ++ tail =
        r.head ++ r.body ++ (clientStream (rest.map (·.1)) ++ tail) := by
      simp [clientStream, List.append_assoc]
    rw [this, serverHeads_cons r used rest _ hu, ih tail (fun q hq => h q (by simp [hq]))]
    simp

/-- without the discard (the pinned behaviour, and the first repair's when a handler read only a part): a body the
handler did not consume is parsed as the next request -/
example : serverHeads false [(⟨[1, 2], [9, 9, 9]⟩, 0), (⟨[3, 4], []⟩, 0)] [1, 2, 9, 9, 9, 3, 4] = [[1, 2], [9, 9]] := by decide
example : serverHeads true [(⟨[1, 2], [9, 9, 9]⟩, 1), (⟨[3, 4], []⟩, 0)] [1, 2, 9, 9, 9, 3, 4] = [[1, 2], [3, 4]] := by decide

end Wire1
