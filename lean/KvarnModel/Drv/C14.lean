import KvarnModel.Drv.Util
import KvarnModel.RuleSet
import KvarnModel.Nonce
import KvarnModel.Csp
namespace Drv.C14
open Wire Drv

/-- `[pat:id,…]` with hex patterns -/
def parseAdds (s : String) : Option (List (Bytes × Nat)) := do
  (← parseList s).mapM fun e => match e.splitOn ":" with
    | [p, i] => do pure (← bytesOfHex p, ← i.toNat?)
    | _ => none

/-- `[name:val;val,…]` (hex; `-` = no values) -/
def parseDirs (s : String) : Option (List (Bytes × List Bytes)) := do
  (← parseList s).mapM fun e => match e.splitOn ":" with
    | [n, v] => do
      let vals ← if v = "-" then some [] else (v.splitOn ";").mapM bytesOfHex
      pure (← bytesOfHex n, vals)
    | _ => none

def parseOptBytes (s : String) : Option (Option Bytes) :=
  if s = "none" then some none else (bytesOfHex s).map some

def showOpt (o : Option Bytes) : String := optStr hexOfBytes o

def handle : List String → Option String
  | ["ruleset", adds, uri] => do
    let l := RuleSet.addAll [] (← parseAdds adds)
    pure (optStr toString (RuleSet.get l (← bytesOfHex uri)))
  | ["nonce", body, n] => do
    pure (match Nonce.rewrite (← bytesOfHex body) (← bytesOfHex n) with
      | .ok b => hexOfBytes b | .err _ => "err" | .panic _ => "panic")
  | ["csp", named, undef, nonce] => do
    let r : Csp.Rule := { named := ← parseDirs named, undefined := ← parseDirs undef }
    pure (showOpt (Csp.toHeader r (← parseOptBytes nonce)))
  -- chain <named|norule> <undef> <server> <override> <referrer set by handler|none> <csp-nonce|none>
  | ["chain", named, undef, server, ov, ref, nonce] => do
    let rule : Option Csp.Rule ← if named = "norule" then some none else do
      pure (some { named := ← parseDirs named, undefined := ← parseDirs undef })
    let h0 : Csp.Headers := (match ← parseOptBytes ref with | some v => [(Csp.REFERRER, v)] | none => []) ++
      (match ← parseOptBytes nonce with | some v => [(Csp.CSP_NONCE, v)] | none => [])
    let out := Csp.packageChain rule (← bytesOfHex server) (← parseBool ov) h0
    pure s!"csp={showOpt (Csp.hget out Csp.CSP)} ref={showOpt (Csp.hget out Csp.REFERRER)} server={showOpt (Csp.hget out Csp.SERVER)} nonce={showOpt (Csp.hget out Csp.CSP_NONCE)}"
  | _ => none
end Drv.C14
