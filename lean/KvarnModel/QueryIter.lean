/-
C02 — `utils::parse::QueryPairIter` (what `Query::get_all`, `get_first`, `get_last`, `get` are built on), after the
repair F41: a double-ended iterator over the half-open range `[pos, end)` of the (name-sorted) pair list. An index out
of range is a value (`none`), as everywhere in the C02 models.
-/
namespace QueryIter

structure It where
  pos : Nat      -- the next pair from the front
  end_ : Nat     -- one past the next pair from the back
  deriving Repr, DecidableEq

/-- `next()` : `none` = panic; `some (none, _)` = the iterator is exhausted -/
def next (l : List α) (it : It) : Option (Option α × It) :=
  if it.pos ≥ it.end_ then some (none, it) else
  match l[it.pos]? with
  | none => none
  | some x => some (some x, { it with pos := it.pos + 1 })

/-- `next_back()` -/
def nextBack (l : List α) (it : It) : Option (Option α × It) :=
  if it.pos ≥ it.end_ then some (none, it) else
  match l[it.end_ - 1]? with
  | none => none
  | some x => some (some x, { it with end_ := it.end_ - 1 })

/-- the version before the repair, for the witness: `back_pos` was never set (`ensure_back_pos` wrote `pos`), and
`next_back` unwrapped it -/
def nextBackOld (_l : List α) (_backPos : Option Nat) : Option (Option α × It) :=
  match _backPos with
  | none => none
  | some e => some (none, ⟨0, e⟩)

inductive Dir | front | back deriving Repr, DecidableEq

/-- a handler's calls, in any order from both ends: the values taken from the front (in order), those taken from the
back (in order of taking), and the iterator afterwards; `none` = some call panicked -/
def drive (l : List α) : It → List Dir → Option (List α × List α × It)
  | it, [] => some ([], [], it)
  | it, .front :: ds =>
    match next l it with
    | none => none
    | some (none, it') => drive l it' ds
    | some (some x, it') => (drive l it' ds).map fun (f, b, i) => (x :: f, b, i)
  | it, .back :: ds =>
    match nextBack l it with
    | none => none
    | some (none, it') => drive l it' ds
    | some (some x, it') => (drive l it' ds).map fun (f, b, i) => (f, x :: b, i)

/-- the pairs of the range -/
def slice (l : List α) (it : It) : List α := (l.drop it.pos).take (it.end_ - it.pos)

end QueryIter
