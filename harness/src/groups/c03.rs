//! C03 / C04 — the response cache: histories of requests, clears and waits against handlers whose output
//! carries an invocation counter; the same history against an uncached twin.
use crate::common::*;
use kvarn::prelude::*;
use std::sync::atomic::{AtomicUsize, Ordering};
use std::sync::Arc;

/// (routed path, preference, status, size, header name, header value, stream) — same table as lean/KvarnModel/Drv/C03.lean
const TABLE: [(&str, &str, u16, usize, &str, &str, bool); 14] = [
    ("/full", "full", 200, 60, "", "", false),
    ("/qm", "qm", 200, 60, "", "", false),
    ("/none", "none", 200, 60, "", "", false),
    ("/s404", "full", 404, 60, "", "", false),
    ("/s403", "full", 403, 60, "", "", false),
    ("/kccnone", "full", 200, 60, "kvarn-cache-control", "none", false),
    ("/life1", "full", 200, 60, "kvarn-cache-control", "1s", false),
    ("/maxage2", "full", 200, 60, "cache-control", "max-age=2", false),
    ("/big", "full", 200, 4194304, "", "", false),
    ("/index.html", "full", 200, 60, "", "", false),
    ("/d/index.html", "qm", 200, 60, "", "", false),
    ("/almost", "full", 200, 4194303, "", "", false),
    ("/stream", "full", 200, 60, "", "", true),
    // the preference depends on the request: QueryMatters for `?x=1`, Full otherwise — both key variants of one
    // path can be live at the same time
    ("/mix", "mix", 200, 60, "", "", false),
];
const QUERIES: [Option<&str>; 4] = [None, Some(""), Some("x=1"), Some("x=2")];

fn build_host(cache: bool, permissive: bool) -> (Arc<HostCollection>, Vec<Arc<AtomicUsize>>) {
    let mut ext = Extensions::empty();
    ext.with_uri_redirect();
    let mut counters = Vec::new();
    for (idx, (path, pref, status, size, hn, hv, stream)) in TABLE.iter().enumerate() {
        let c = Arc::new(AtomicUsize::new(0));
        counters.push(c.clone());
        let (pref, status, size, hn, hv, stream) = (*pref, *status, *size, *hn, *hv, *stream);
        ext.add_prepare_single(
            *path,
            prepare!(req, _h, _p, _a, move |c: Arc<AtomicUsize>, idx: usize, pref: &'static str, status: u16, size: usize, hn: &'static str, hv: &'static str, stream: bool| {
                let n = c.fetch_add(1, Ordering::SeqCst);
                let mut body = format!("p{idx}#{n};").into_bytes();
                body.resize(*size, b'.');
                let mut r = Response::new(Bytes::from(body));
                *r.status_mut() = StatusCode::from_u16(*status).unwrap();
                if !hn.is_empty() {
                    r.headers_mut().insert(*hn, HeaderValue::from_static(hv));
                }
                let f = match *pref {
                    "full" => FatResponse::cache(r),
                    "qm" => FatResponse::new(r, comprash::ServerCachePreference::QueryMatters),
                    "mix" => if req.uri().query() == Some("x=1") { FatResponse::new(r, comprash::ServerCachePreference::QueryMatters) } else { FatResponse::cache(r) },
                    _ => FatResponse::no_cache(r),
                };
                if *stream { f.with_future(response_pipe_fut!(_pipe, _host, {})) } else { f }
            }),
        );
    }
    let mut opts = host::Options::default();
    if permissive {
        opts.status_code_cache_filter = |_| host::CacheAction::Cache;
    }
    let mut host = Host::unsecure("localhost", "/nonexistent", ext, opts);
    host.limiter.disable();
    if !cache {
        host.disable_response_cache();
    }
    (HostCollection::builder().insert(host).build(), counters)
}

fn gen_events(rng: &mut Rng, timed: bool) -> String {
    let n = rng.range(3, if timed { 10 } else { 40 });
    let mut t = 0usize;
    // one history in six concentrates on the handler with both key variants and clears often
    let mixy = !timed && rng.chance(1, 6);
    let focus: Vec<usize> = if timed { vec![6, 7, 0] } else if mixy { vec![13] } else { (0..rng.range(1, 4)).map(|_| rng.below(TABLE.len())).collect() };
    list((0..n).map(|_| {
        if timed && rng.chance(1, 3) {
            t += *rng.pick(&[300usize, 1600, 2600]);
        } else {
            t += 5;
        }
        match if mixy && rng.chance(1, 5) { 0 } else { rng.below(14) } {
            0 => format!("K:{}:{}", rng.pick(&focus), rng.below(4)),
            1 if !timed => "A".to_owned(),
            2 if !timed => format!("KR:{}", rng.below(4)),
            _ => {
                let p = if rng.chance(4, 5) { *rng.pick(&focus) } else { rng.below(TABLE.len()) };
                let m = *rng.pick(&["G", "G", "G", "G", "H", "H", "P", "O", "T"]);
                let ims = *rng.pick(&["none", "none", "none", "new", "old"]);
                format!("R:{t}:{m}:{p}:{}:{ims}:{}", rng.below(4), if rng.chance(1, 2) { "a" } else { "b" })
            }
        }
    }))
}

pub struct History;
impl Group for History {
    fn timing_sensitive(&self) -> bool {
        true
    }
    fn name(&self) -> &'static str {
        "c03.hist"
    }
    fn rule(&self) -> &'static str {
        "histories of 3-40 events over 14 handlers (Full, QueryMatters, a handler whose preference depends on the query so that both key variants of one path are live, None, 404, filtered 403, kvarn-cache-control none / 1s, cache-control max-age=2, exactly 4 MiB and one byte less, `/`->/index.html and `/d/`->/d/index.html expansions, a streaming response) x 4 query forms (none, empty, x=1, x=2) x GET/HEAD/POST/OPTIONS/TRACE x If-Modified-Since (absent, current, 10 s old) x clear_page / clear of `/` as typed / clear_response_caches, default and permissive status filter, cache on/off; timed histories use real waits of 0.3/1.6/2.6 s against lifetimes of 1 and 2 s; every handler embeds its invocation counter, so which replies are hits, which are recomputed and which are 304 is observable and compared with the model; the same history runs against an uncached twin (oracle: same status and same representation, no counter older than its lifetime); non-trivial = at least one hit or 304"
    }
    fn generate(&self, ctx: &Ctx, rng: &mut Rng) -> Vec<String> {
        let mut v = Vec::new();
        let timed = if ctx.mode == Mode::Quick { 12 } else { 150 };
        for _ in 0..timed {
            v.push(format!("c03.hist 1 0 {}", gen_events(rng, true)));
        }
        // both key variants of one path, then a clear of one of them; a safe non-GET method after a GET
        v.push("c03.hist 1 0 [R:5:G:13:2:none:a,R:10:G:13:3:none:a,K:13:2,R:15:G:13:2:none:a,R:20:G:13:3:none:a]".to_owned());
        v.push("c03.hist 1 0 [R:5:G:13:3:none:a,R:10:G:13:2:none:a,K:13:3,R:15:G:13:3:none:a,R:20:G:13:2:none:a]".to_owned());
        v.push("c03.hist 1 0 [R:5:G:0:0:none:a,R:10:O:0:0:none:a,R:15:T:0:0:none:a,R:20:H:0:0:none:a,R:25:G:3:0:none:a,R:30:O:3:0:none:a]".to_owned());
        let n = if ctx.mode == Mode::Quick { 1200 } else { 30_000 };
        for _ in 0..n {
            let ce = b01(!rng.chance(1, 10));
            let pf = b01(rng.chance(1, 5));
            v.push(format!("c03.hist {ce} {pf} {}", gen_events(rng, false)));
        }
        v
    }
    fn run_impl(&self, _ctx: &Ctx, line: &str) -> String {
        let p: Vec<&str> = line.split(' ').collect();
        let rt = tokio::runtime::Builder::new_current_thread().enable_all().build().unwrap();
        let (coll, _) = build_host(p[1] == "1", p[2] == "1");
        let (twin, _) = build_host(false, p[2] == "1");
        let host = coll.get_host("localhost").unwrap();
        let thost = twin.get_host("localhost").unwrap();
        let addr: SocketAddr = "10.0.0.2:4000".parse().unwrap();
        let t0 = std::time::Instant::now();
        let mut outs = Vec::new();
        let mut problems = Vec::new();
        for ev in parse_list(p[3]).unwrap() {
            let f: Vec<&str> = ev.split(':').collect();
            match f[0] {
                "R" => {
                    let due = std::time::Duration::from_millis(f[1].parse().unwrap());
                    if t0.elapsed() < due {
                        std::thread::sleep(due - t0.elapsed());
                    }
                    if t0.elapsed() > due + std::time::Duration::from_millis(250) && due.as_millis() > 200 {
                        return "inconclusive: timing jitter".into();
                    }
                    let pi: usize = f[3].parse().unwrap();
                    let routed = TABLE[pi].0;
                    let typed = match (routed, f[6]) { ("/index.html", "a") => "/", ("/d/index.html", "a") => "/d/", (r, _) => r };
                    let uri = match QUERIES[f[4].parse::<usize>().unwrap()] { None => typed.to_owned(), Some(q) => format!("{typed}?{q}") };
                    let mk = || {
                        let mut b = Request::builder().method(match f[2] { "G" => "GET", "H" => "HEAD", "O" => "OPTIONS", "T" => "TRACE", _ => "POST" }).uri(&uri);
                        if f[5] != "none" {
                            let now = time::OffsetDateTime::now_utc() - if f[5] == "old" { time::Duration::seconds(10) } else { time::Duration::ZERO };
                            b = b.header("if-modified-since", now.format(&comprash::HTTP_DATE).unwrap());
                        }
                        b.body(kvarn::application::Body::Bytes(Bytes::new().into())).unwrap()
                    };
                    let mut req = mk();
                    let reply = rt.block_on(kvarn::handle_cache(&mut req, addr, host));
                    let mut treq = mk();
                    let treply = rt.block_on(kvarn::handle_cache(&mut treq, addr, thost));
                    let show = |r: &kvarn::CacheReply| -> (u16, String) {
                        let st = r.response.status().as_u16();
                        let b = String::from_utf8_lossy(&r.identity_body[..r.identity_body.len().min(24)]).into_owned();
                        (st, b.split(';').next().unwrap_or("").to_owned())
                    };
                    let (st, body) = show(&reply);
                    let (tst, tbody) = show(&treply);
                    if st == 304 {
                        outs.push("304".to_owned());
                    } else {
                        outs.push(format!("{st}#{}", body.split('#').nth(1).unwrap_or("?")));
                        // statement-level: same status and representation as the uncached server
                        if st != tst || body.split('#').next() != tbody.split('#').next() {
                            problems.push(format!("{uri}: cached server {st} {body}, uncached {tst} {tbody}"));
                        }
                    }
                }
                "K" => {
                    let pi: usize = f[1].parse().unwrap();
                    let uri = match QUERIES[f[2].parse::<usize>().unwrap()] { None => TABLE[pi].0.to_owned(), Some(q) => format!("{}?{q}", TABLE[pi].0) };
                    coll.clear_page("localhost", &uri.parse().unwrap());
                }
                "KR" => {
                    let uri = match QUERIES[f[1].parse::<usize>().unwrap()] { None => "/".to_owned(), Some(q) => format!("/?{q}") };
                    coll.clear_page("localhost", &uri.parse().unwrap());
                }
                _ => {
                    rt.block_on(coll.clear_response_caches(None));
                }
            }
        }
        if problems.is_empty() { list(outs) } else { format!("{} DIFFERS-FROM-UNCACHED {}", list(outs), problems.join(" || ")) }
    }
    fn oracle(&self, _ctx: &Ctx, line: &str, out: &str) -> Option<(String, String)> {
        if out.contains("DIFFERS-FROM-UNCACHED") || out == "panic" {
            return Some((format!("uncached:{line}"), out.to_owned()));
        }
        // statement-level (C04): responses that are not cacheable are recomputed on every request — their
        // invocation counters never repeat; POST never repeats either.
        let p: Vec<&str> = line.split(' ').collect();
        let permissive = p[2] == "1";
        let outs = parse_list(out)?;
        let mut seen: std::collections::HashMap<usize, Vec<String>> = Default::default();
        // (handler, query form) -> replies produced before the last explicit clear of that page
        let mut cleared: std::collections::HashMap<(usize, String), Vec<String>> = Default::default();
        let mut oi = 0;
        for ev in parse_list(p[3])? {
            let f: Vec<&str> = ev.split(':').collect();
            if f[0] == "K" {
                let pi: usize = f[1].parse().ok()?;
                cleared.insert((pi, f[2].to_owned()), seen.get(&pi).cloned().unwrap_or_default());
                continue;
            }
            if f[0] == "A" {
                for (pi, v) in &seen {
                    for q in 0..4 {
                        cleared.insert((*pi, q.to_string()), v.clone());
                    }
                }
                continue;
            }
            if f[0] != "R" {
                continue;
            }
            let o = outs.get(oi)?.clone();
            oi += 1;
            let pi: usize = f[3].parse().ok()?;
            let t = TABLE[pi];
            let uncacheable = t.1 == "none" || (t.2 == 403 && !permissive) || t.5 == "none" || t.3 >= 4 * 1024 * 1024 || t.6 || !matches!(f[2], "G" | "H");
            if o == "304" {
                if uncacheable && matches!(f[2], "G" | "H") && t.1 != "full" && t.1 != "mix" {
                    return Some((format!("stored:{line}"), format!("304 for the uncacheable {}", t.0)));
                }
                continue;
            }
            // not at all after an explicit clear of that page
            if let Some(before) = cleared.get(&(pi, f[4].to_owned())) {
                if before.contains(&o) {
                    return Some((format!("cleared:{line}"), format!("{}?{} was cleared, yet the reply {o} produced before the clear was served after it", t.0, f[4])));
                }
            }
            let e = seen.entry(pi).or_default();
            if (uncacheable || p[1] == "0") && e.contains(&o) {
                return Some((format!("stored:{line}"), format!("{} is not cacheable (or the cache is off) but the reply {o} was served twice", t.0)));
            }
            if f[2] != "P" || true {
                e.push(o);
            }
        }
        None
    }
    fn nontrivial(&self, _l: &str, o: &str) -> bool {
        // a repeated counter = a hit
        let v = parse_list(o).unwrap_or_default();
        v.iter().any(|x| x == "304") || { let mut s = v.clone(); s.sort(); s.windows(2).any(|w| w[0] == w[1]) }
    }
    fn classify(&self, l: &str, o: &str) -> String {
        format!("{}{}", if l.contains(":1600:") || l.contains(":2600:") { "timed " } else { "" }, if o.contains("304") { "304" } else { "plain" })
    }
    fn shrink(&self, line: &str) -> Vec<String> {
        let p: Vec<&str> = line.split(' ').collect();
        let evs = parse_list(p[3]).unwrap();
        (0..evs.len()).map(|i| { let mut e = evs.clone(); e.remove(i); format!("{} {} {} {}", p[0], p[1], p[2], list(e)) }).collect()
    }
}
