import KvarnModel.UriKey
/-! C03 — the cache key as the code represents it keeps path and query apart: two URIs have the same `PathQuery` exactly
when their paths are equal and their queries are (an absent query and an empty one count as the same, as in the cache
models); the accessors never slice out of range and give back what went in. -/
namespace UriKey
open Rust Cache

theorem ofUri_string (p : Bytes) (q : Option Bytes) : (ofUri p q).string = p ++ normQ q ∧ (ofUri p q).queryStart = p.length := by
  cases q <;> simp [ofUri, normQ]

/-- **`/a` + `b` is not `/ab`**: the representation is injective on (path, query) -/
theorem ofUri_eq_iff (p p' : Bytes) (q q' : Option Bytes) :
    ofUri p q = ofUri p' q' ↔ p = p' ∧ normQ q = normQ q' := by
  obtain ⟨s1, l1⟩ := ofUri_string p q
  obtain ⟨s2, l2⟩ := ofUri_string p' q'
  constructor
  · intro h
    have hs : p ++ normQ q = p' ++ normQ q' := by rw [← s1, ← s2, h]
    have hl : p.length = p'.length := by rw [← l1, ← l2, h]
    have := List.append_inj hs hl
    exact this
  · intro ⟨hp, hq⟩
    cases hpq : ofUri p q with
    | mk s n =>
      cases hpq' : ofUri p' q' with
      | mk s' n' =>
        rw [hpq] at s1 l1; rw [hpq'] at s2 l2
        simp only at s1 l1 s2 l2
        subst s1 l1 s2 l2
        rw [hp, hq]

/-- what `From<&Uri>` builds is well formed: `path()`, `query()` never slice out of range … -/
theorem ofUri_wf (p : Bytes) (q : Option Bytes) : (ofUri p q).queryStart ≤ (ofUri p q).string.length := by
  obtain ⟨s, l⟩ := ofUri_string p q
  rw [s, l]; simp

/-- … and give back the URI's path and query (an empty query reads as none) -/
theorem path_ofUri (p : Bytes) (q : Option Bytes) : path (ofUri p q) = some p := by
  obtain ⟨s, l⟩ := ofUri_string p q
  unfold path
  rw [if_pos (ofUri_wf p q), s, l, List.take_left]

theorem query_ofUri (p : Bytes) (q : Option Bytes) :
    query (ofUri p q) = some (if normQ q = [] then none else some (normQ q)) := by
  obtain ⟨s, l⟩ := ofUri_string p q
  unfold query
  rw [s, l]
  by_cases hq : normQ q = []
  · simp [hq]
  · have : ¬ p.length = (p ++ normQ q).length := by
      simp only [List.length_append]
      have : 0 < (normQ q).length := List.length_pos_iff.2 hq
      omega
    rw [if_neg this, if_pos (by simp), List.drop_left]
    simp [hq]

theorem intoPath_ofUri (p : Bytes) (q : Option Bytes) : intoPath (ofUri p q) = p := by
  obtain ⟨s, l⟩ := ofUri_string p q
  unfold intoPath
  rw [s, l, List.take_left]

/-- the representation refines the abstract key of the cache models (so `Cache.key_injective`, `no_cross_serving`, …
speak about the code's keys) -/
theorem abs_pathAndQuery (p : Bytes) (q : Option Bytes) : abs (pathAndQuery p q) = Cache.Key.pathQuery p (normQ q) := by
  obtain ⟨s, l⟩ := ofUri_string p q
  simp only [abs, pathAndQuery, s, l, List.take_left, List.drop_left]

/-- **keys of different (path, query) pairs differ**, in either variant, and the two variants never coincide -/
theorem key_injective (p p' : Bytes) (q q' : Option Bytes) :
    (pathAndQuery p q = pathAndQuery p' q' ↔ p = p' ∧ normQ q = normQ q') ∧
    (∀ x y, callAll (pathAndQuery p q) = [x, y] → y = Key.path p) := by
  constructor
  · simp only [pathAndQuery, Key.pathQuery.injEq]
    exact ofUri_eq_iff p p' q q'
  · intro x y h
    simp only [callAll, pathAndQuery, intoPath_ofUri] at h
    simp only [List.cons.injEq, and_true] at h
    exact h.2.symm

/-- the two keys a request is looked up under, in the code's order (`call_all`): first path *and* query, then the path
alone — as abstract keys exactly the two the cache model's `lookup` tries -/
theorem callAll_abs (p : Bytes) (q : Option Bytes) :
    (callAll (pathAndQuery p q)).map abs = [Cache.Key.pathQuery p (normQ q), Cache.Key.path p] := by
  have h1 := abs_pathAndQuery p q
  simp only [callAll, pathAndQuery, List.map, intoPath_ofUri, abs] at h1 ⊢
  rw [h1]

/-- the string alone does not tell `/item?7` from `/item7` (the seeded change C03-7) -/
example : eqStringOnly (ofUri [47, 105] (some [55])) (ofUri [47, 105, 55] none) = true ∧
    ofUri [47, 105] (some [55]) ≠ ofUri [47, 105, 55] none := by decide

end UriKey
